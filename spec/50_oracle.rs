// ===================================================================================
// SPEC LIBRARY: the decoder oracle, written from the statement of property C02 and
// EIP-778 -- NOT from the decoder.  Key names, "v4", the 300-byte limit and the widths of
// typed values are literals here on purpose: changing a constant in the source makes code
// and specification disagree instead of moving both.  Pure Verus.
// ===================================================================================
pub open spec fn ID() -> Seq<u8> { seq![0x69u8, 0x64u8] }                          // "id"
pub open spec fn V4() -> Seq<u8> { seq![0x76u8, 0x34u8] }                          // "v4"
pub open spec fn IP() -> Seq<u8> { seq![0x69u8, 0x70u8] }                          // "ip"
pub open spec fn IP6() -> Seq<u8> { seq![0x69u8, 0x70u8, 0x36u8] }                 // "ip6"
pub open spec fn TCP() -> Seq<u8> { seq![0x74u8, 0x63u8, 0x70u8] }                 // "tcp"
pub open spec fn TCP6() -> Seq<u8> { seq![0x74u8, 0x63u8, 0x70u8, 0x36u8] }        // "tcp6"
pub open spec fn UDP() -> Seq<u8> { seq![0x75u8, 0x64u8, 0x70u8] }                 // "udp"
pub open spec fn UDP6() -> Seq<u8> { seq![0x75u8, 0x64u8, 0x70u8, 0x36u8] }        // "udp6"
pub open spec fn SECP() -> Seq<u8> { seq![0x73u8, 0x65u8, 0x63u8, 0x70u8, 0x32u8, 0x35u8, 0x36u8, 0x6bu8, 0x31u8] } // "secp256k1"
pub open spec fn ED() -> Seq<u8> { seq![0x65u8, 0x64u8, 0x32u8, 0x35u8, 0x35u8, 0x31u8, 0x39u8] }               // "ed25519"
pub open spec fn CLIENT() -> Seq<u8> { seq![0x63u8, 0x6cu8, 0x69u8, 0x65u8, 0x6eu8, 0x74u8] }                  // "client"
pub open spec fn MAX_SIZE() -> nat { 300 }

pub open spec fn is_port_key(k: Seq<u8>) -> bool { k == TCP() || k == TCP6() || k == UDP() || k == UDP6() }

/// typing of values (statement of C02): `s` *starts with* a well-framed item of the right type for `key`
pub open spec fn value_ok(key: Seq<u8>, s: Seq<u8>) -> bool {
    if key == ID() { parse_hdr(s) matches Some(h) && !h.list && item_payload(s, h) == V4() }
    else if is_port_key(key) { uint_ok(s, 2) }
    else if key == IP() { fixed_str_ok(s, 4) }
    else if key == IP6() { fixed_str_ok(s, 16) }
    else { parse_hdr(s) is Some }
}
/// a stored raw value: exactly one item, well typed for its key
pub open spec fn stored_ok(key: Seq<u8>, v: Seq<u8>) -> bool { value_ok(key, v) && one_item(v) }

pub open spec fn values_ok(m: Map<Seq<u8>, Seq<u8>>) -> bool {
    forall|k: Seq<u8>| #[trigger] m.contains_key(k) ==> stored_ok(k, m[k])
}

/// accumulator-style pair parser: reads like one iteration of a loop
pub open spec fn parse_pairs(s: Seq<u8>, prev: Option<Seq<u8>>, acc: Map<Seq<u8>, Seq<u8>>) -> Option<Map<Seq<u8>, Seq<u8>>>
    decreases s.len()
{
    if s.len() == 0 { Some(acc) } else {
        match parse_hdr(s) {
            None => None,
            Some(hk) => {
                if hk.list || hk.hlen + hk.payload == 0 { None } else {
                    let key = item_payload(s, hk);
                    let rest = after(s, hk.hlen + hk.payload);
                    if prev is Some && !lex_lt(prev->0, key) { None }
                    else if !value_ok(key, rest) { None }
                    else {
                        let hv = parse_hdr(rest)->0;
                        parse_pairs(after(rest, hv.hlen + hv.payload), Some(key), acc.insert(key, item_raw(rest, hv)))
                    }
                }
            }
        }
    }
}

pub struct RecView {
    pub seq: nat,
    pub sig: Seq<u8>,
    pub content: Map<Seq<u8>, Seq<u8>>,
}

/// structural part of "is a well-formed EIP-778 record": `item` is exactly one RLP list of at most 300 bytes
/// holding a signature string, a canonical sequence number < 2^64, then sorted typed pairs
pub open spec fn parse_record_struct(item: Seq<u8>) -> Option<RecView> {
    match parse_hdr(item) {
        None => None,
        Some(h) => {
            if !h.list || h.hlen + h.payload != item.len() || item.len() > MAX_SIZE() { None } else {
                let p = item_payload(item, h);
                match parse_hdr(p) {
                    None => None,
                    Some(hs) => {
                        if hs.list { None } else {
                            let p2 = after(p, hs.hlen + hs.payload);
                            if !uint_ok(p2, 8) { None } else {
                                let hq = parse_hdr(p2)->0;
                                match parse_pairs(after(p2, hq.hlen + hq.payload), None, Map::empty()) {
                                    None => None,
                                    Some(c) => Some(RecView { seq: be_val(item_payload(p2, hq)), sig: item_payload(p, hs), content: c }),
                                }
                            }
                        }
                    }
                }
            }
        }
    }
}

/// `id` entry present and equal to "v4" (general form: the stored value starts with a string item whose text reads v4)
pub open spec fn id_is_v4(m: Map<Seq<u8>, Seq<u8>>) -> bool {
    m.contains_key(ID()) && (parse_hdr(m[ID()]) matches Some(h) && !h.list && item_payload(m[ID()], h) == V4())
}
