// ===================================================================================
// LEMMAS (module `lem`): laws of the abstract content map `cmap`, PROVED from the trusted
// std axioms T3/T4 (prelude/trusted.rs).  No assumptions in this file.
// ===================================================================================
use vstd::prelude::*;
use vstd::std_specs::btree::*;
use super::sp::*;
use bytes::Bytes;
broadcast use {super::trusted::group_trusted, super::trusted::group_trusted_ext};

pub proof fn lemma_cmap_empty()
    ensures cmap(Map::<Key, Bytes>::empty()) =~= Map::<Seq<u8>, Seq<u8>>::empty(),
{
    reveal(cmap);
    assert(Map::<Key, Bytes>::empty().dom().map(|kk: Key| kk@) =~= Set::<Seq<u8>>::empty());
}

/// a concrete key is in `m` iff its view is in `cmap(m)`, and then the values agree
pub proof fn lemma_cmap_key(m: Map<Key, Bytes>, kk: Key)
    ensures
        m.contains_key(kk) ==> cmap(m).contains_key(kk@) && cmap(m)[kk@] == bview(&m[kk]),
{
    reveal(cmap);
    if m.contains_key(kk) {
        assert(m.dom().contains(kk));
        assert(m.dom().map(|k2: Key| k2@).contains(kk@));
        let k3 = choose|k3: Key| #[trigger] m.contains_key(k3) && k3@ == kk@;
        assert(k3 == kk);
    }
}

pub proof fn lemma_cmap_contains(m: Map<Key, Bytes>, k: Seq<u8>)
    ensures
        cmap(m).contains_key(k) <==> (exists|kk: Key| #[trigger] m.contains_key(kk) && kk@ == k),
{
    reveal(cmap);
    if cmap(m).contains_key(k) {
        let kk = choose|kk: Key| m.dom().contains(kk) && kk@ == k;
        assert(m.contains_key(kk) && kk@ == k);
    }
    if exists|kk: Key| #[trigger] m.contains_key(kk) && kk@ == k {
        let kk = choose|kk: Key| #[trigger] m.contains_key(kk) && kk@ == k;
        lemma_cmap_key(m, kk);
    }
}

/// lookups with a borrowed key (`BTreeMap::get(&[u8])`, `contains_key`)
pub proof fn lemma_cmap_lookup(m: Map<Key, Bytes>, k: &[u8])
    ensures
        contains_borrowed_key::<Key, Bytes, [u8]>(m, k) == cmap(m).contains_key(k@),
        forall|v: Bytes| #[trigger] maps_borrowed_key_to_value::<Key, Bytes, [u8]>(m, k, v) ==> cmap(m).contains_key(k@) && cmap(m)[k@] == bview(&v),
{
    lemma_cmap_contains(m, k@);
    assert forall|v: Bytes| #[trigger] maps_borrowed_key_to_value::<Key, Bytes, [u8]>(m, k, v) implies cmap(m).contains_key(k@) && cmap(m)[k@] == bview(&v) by {
        let kk = choose|kk: Key| #[trigger] m.contains_key(kk) && kk@ == k@ && m[kk] == v;
        lemma_cmap_key(m, kk);
    }
}

pub proof fn lemma_cmap_insert(m: Map<Key, Bytes>, k: Key, v: Bytes)
    ensures cmap(m.insert(k, v)) =~= cmap(m).insert(k@, bview(&v)),
{
    let a = cmap(m.insert(k, v));
    let b = cmap(m).insert(k@, bview(&v));
    assert forall|x: Seq<u8>| a.contains_key(x) == b.contains_key(x) by {
        lemma_cmap_contains(m.insert(k, v), x);
        lemma_cmap_contains(m, x);
        if x == k@ {
            assert(m.insert(k, v).contains_key(k));
        } else {
            if a.contains_key(x) {
                let kk = choose|kk: Key| #[trigger] m.insert(k, v).contains_key(kk) && kk@ == x;
                assert(m.contains_key(kk));
            }
            if b.contains_key(x) {
                let kk = choose|kk: Key| #[trigger] m.contains_key(kk) && kk@ == x;
                assert(m.insert(k, v).contains_key(kk));
            }
        }
    }
    assert forall|x: Seq<u8>| a.contains_key(x) implies a[x] == b[x] by {
        lemma_cmap_contains(m.insert(k, v), x);
        let kk = choose|kk: Key| #[trigger] m.insert(k, v).contains_key(kk) && kk@ == x;
        lemma_cmap_key(m.insert(k, v), kk);
        if x == k@ {
            assert(kk == k);
        } else {
            assert(m.contains_key(kk));
            lemma_cmap_key(m, kk);
        }
    }
}

/// effect of `BTreeMap::remove(&[u8])`
pub proof fn lemma_cmap_remove(old: Map<Key, Bytes>, new: Map<Key, Bytes>, k: &[u8])
    requires borrowed_key_removed::<Key, Bytes, [u8]>(old, new, k),
    ensures cmap(new) =~= cmap(old).remove(k@),
{
    let a = cmap(new);
    let b = cmap(old).remove(k@);
    assert forall|x: Seq<u8>| a.contains_key(x) == b.contains_key(x) by {
        lemma_cmap_contains(new, x);
        lemma_cmap_contains(old, x);
        if a.contains_key(x) {
            let kk = choose|kk: Key| #[trigger] new.contains_key(kk) && kk@ == x;
            assert(old.contains_key(kk));
        }
        if b.contains_key(x) {
            let kk = choose|kk: Key| #[trigger] old.contains_key(kk) && kk@ == x;
            assert(new.contains_key(kk));
        }
    }
    assert forall|x: Seq<u8>| a.contains_key(x) implies a[x] == b[x] by {
        lemma_cmap_contains(new, x);
        let kk = choose|kk: Key| #[trigger] new.contains_key(kk) && kk@ == x;
        lemma_cmap_key(new, kk);
        assert(old.contains_key(kk));
        lemma_cmap_key(old, kk);
    }
}

/// quantified form of lemma_cmap_lookup for call sites whose borrowed key is a temporary
pub proof fn lemma_cmap_lookup_all(m: Map<Key, Bytes>)
    ensures
        forall|k: &[u8]| #[trigger] contains_borrowed_key::<Key, Bytes, [u8]>(m, k) == cmap(m).contains_key(k@),
        forall|k: &[u8], v: Bytes| #[trigger] maps_borrowed_key_to_value::<Key, Bytes, [u8]>(m, k, v) ==> cmap(m).contains_key(k@) && cmap(m)[k@] == bview(&v),
{
    assert forall|k: &[u8]| #[trigger] contains_borrowed_key::<Key, Bytes, [u8]>(m, k) == cmap(m).contains_key(k@) by {
        lemma_cmap_lookup(m, k);
    }
    assert forall|k: &[u8], v: Bytes| #[trigger] maps_borrowed_key_to_value::<Key, Bytes, [u8]>(m, k, v) implies cmap(m).contains_key(k@) && cmap(m)[k@] == bview(&v) by {
        lemma_cmap_lookup(m, k);
    }
}

// ---- broadcast forms: fire on the terms that vstd's BTreeMap specifications produce ----
pub broadcast proof fn bc_cmap_insert(m: Map<Key, Bytes>, k: Key, v: Bytes)
    ensures #[trigger] cmap(m.insert(k, v)) == cmap(m).insert(k@, bview(&v)),
{
    lemma_cmap_insert(m, k, v);
}
pub broadcast proof fn bc_cmap_removed(old: Map<Key, Bytes>, new: Map<Key, Bytes>, k: &[u8])
    requires #[trigger] borrowed_key_removed::<Key, Bytes, [u8]>(old, new, k),
    ensures cmap(new) == cmap(old).remove(k@),
{
    lemma_cmap_remove(old, new, k);
}
pub broadcast proof fn bc_cmap_contains_borrowed(m: Map<Key, Bytes>, k: &[u8])
    ensures #[trigger] contains_borrowed_key::<Key, Bytes, [u8]>(m, k) == cmap(m).contains_key(k@),
{
    lemma_cmap_lookup(m, k);
}
pub broadcast proof fn bc_cmap_maps_borrowed(m: Map<Key, Bytes>, k: &[u8], v: Bytes)
    requires #[trigger] maps_borrowed_key_to_value::<Key, Bytes, [u8]>(m, k, v),
    ensures cmap(m).contains_key(k@), cmap(m)[k@] == bview(&v),
{
    lemma_cmap_lookup(m, k);
}
/// `insert` reports the previous value through the concrete key
pub broadcast proof fn bc_cmap_contains_key(m: Map<Key, Bytes>, kk: Key)
    ensures
        #[trigger] m.contains_key(kk) == cmap(m).contains_key(kk@),
        m.contains_key(kk) ==> cmap(m)[kk@] == bview(&m[kk]),
{
    lemma_cmap_contains(m, kk@);
    lemma_cmap_key(m, kk);
    if cmap(m).contains_key(kk@) {
        let k2 = choose|k2: Key| #[trigger] m.contains_key(k2) && k2@ == kk@;
        assert(k2 == kk);
    }
}
/// `&v[..]` is `v@.subrange(0, len)` for vstd: the full range is the sequence itself (proved; stated as a broadcast fact because
/// nothing in a caller's proof would otherwise ask for extensionality)
pub broadcast proof fn bc_subrange_full(s: Seq<u8>)
    ensures #[trigger] s.subrange(0, s.len() as int) == s,
{
    assert(s.subrange(0, s.len() as int) =~= s);
}
pub broadcast group group_cmap {
    bc_cmap_insert, bc_cmap_removed, bc_cmap_contains_borrowed, bc_cmap_maps_borrowed, bc_cmap_contains_key, bc_subrange_full,
}
