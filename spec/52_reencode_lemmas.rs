// ===================================================================================
// SPEC LIBRARY: the parse -> encode direction (canonical uniqueness): whatever the oracle accepts
// re-encodes to exactly the accepted bytes; the first item of a buffer is independent of what
// follows it.  Pure Verus, fully verified; no assumptions.
// ===================================================================================
// ======== NEW LEMMAS TO PROVE (statements fixed; fill in bodies; add helpers freely) ========
// =====================================================================================

// ---- helpers ----
pub open spec fn pow256(n: nat) -> nat
    decreases n
{
    if n == 0 { 1 } else { 256 * pow256((n - 1) as nat) }
}
/// a big-endian number of n bytes is below 256^n
pub proof fn lemma_be_val_bound(s: Seq<u8>)
    ensures be_val(s) < pow256(s.len()),
    decreases s.len()
{
    if s.len() > 0 {
        let p = s.drop_last();
        lemma_be_val_bound(p);
        let a = be_val(p);
        let q = pow256(p.len());
        assert(pow256(s.len()) == 256 * q);
        assert(a * 256 + (s.last() as nat) < 256 * q) by (nonlinear_arith)
            requires a < q, (s.last() as nat) < 256;
    }
}
pub proof fn lemma_pow256_mono(a: nat, b: nat)
    requires a <= b,
    ensures pow256(a) <= pow256(b), pow256(a) >= 1,
    decreases b
{
    if a < b {
        lemma_pow256_mono(a, (b - 1) as nat);
    } else if a > 0 {
        lemma_pow256_mono((a - 1) as nat, (a - 1) as nat);
    }
}
pub proof fn lemma_pow256_8()
    ensures pow256(8) == 0x1_0000_0000_0000_0000,
{
    reveal_with_fuel(pow256, 10);
}
/// at most 8 big-endian bytes fit a u64
pub proof fn lemma_be_val_u64(s: Seq<u8>)
    requires s.len() <= 8,
    ensures be_val(s) <= u64::MAX,
{
    lemma_be_val_bound(s);
    lemma_pow256_mono(s.len(), 8);
    lemma_pow256_8();
}

/// an item cut out of a buffer is exactly one item with the same header
pub proof fn lemma_item_raw_one(s: Seq<u8>)
    requires parse_hdr(s) is Some,
    ensures
        one_item(item_raw(s, parse_hdr(s)->0)),
        parse_hdr(item_raw(s, parse_hdr(s)->0)) == parse_hdr(s),
        item_payload(item_raw(s, parse_hdr(s)->0), parse_hdr(s)->0) == item_payload(s, parse_hdr(s)->0),
{
    let h = parse_hdr(s)->0;
    let r = item_raw(s, h);
    lemma_canon_item(s);
    let b = s[0];
    assert(r.len() == h.hlen + h.payload);
    assert(r[0] == b);
    if b < 0x80 {
    } else if b <= 0xB7 {
        if b == 0x81 {
            assert(r[1] == s[1]);
        }
    } else if b <= 0xBF || b >= 0xF8 {
        let ll = (h.hlen - 1) as nat;
        assert(r[1] == s[1]);
        assert(r.subrange(1, 1 + ll as int) =~= s.subrange(1, 1 + ll as int));
    } else {
    }
    assert(parse_hdr(r) == Some(h));
    assert(item_payload(r, h) =~= item_payload(s, h));
}

/// the first item of a buffer does not depend on what follows it
pub proof fn lemma_item_prefix_local(s: Seq<u8>, t: Seq<u8>)
    requires
        parse_hdr(s) is Some,
        parse_hdr(t) is Some,
        item_raw(s, parse_hdr(s)->0) == item_raw(t, parse_hdr(t)->0),
    ensures
        parse_hdr(s) == parse_hdr(t),
{
    lemma_item_raw_one(s);
    lemma_item_raw_one(t);
}

/// value_ok only looks at the first item: cutting it out gives a stored value
pub proof fn lemma_value_ok_raw(key: Seq<u8>, rest: Seq<u8>)
    requires value_ok(key, rest),
    ensures
        parse_hdr(rest) is Some,
        value_ok(key, item_raw(rest, parse_hdr(rest)->0)),
        one_item(item_raw(rest, parse_hdr(rest)->0)),
        stored_ok(key, item_raw(rest, parse_hdr(rest)->0)),
{
    assert(parse_hdr(rest) is Some);
    lemma_item_raw_one(rest);
}

/// a buffer splits into its first item and what follows
pub proof fn lemma_item_split(s: Seq<u8>)
    requires parse_hdr(s) is Some,
    ensures ({ let h = parse_hdr(s)->0;
        &&& s == item_raw(s, h) + after(s, h.hlen + h.payload)
        &&& after(s, h.hlen + h.payload).len() < s.len() }),
{
    let h = parse_hdr(s)->0;
    lemma_canon_item(s);
    assert(s =~= item_raw(s, h) + after(s, h.hlen + h.payload));
}

// the pieces of one decoder step on a non-empty buffer
pub open spec fn pp_key(s: Seq<u8>) -> Seq<u8> { item_payload(s, parse_hdr(s)->0) }
pub open spec fn pp_rest(s: Seq<u8>) -> Seq<u8> { after(s, item_total(s)) }
pub open spec fn pp_val(s: Seq<u8>) -> Seq<u8> { item_raw(pp_rest(s), parse_hdr(pp_rest(s))->0) }
pub open spec fn pp_tail(s: Seq<u8>) -> Seq<u8> { after(pp_rest(s), item_total(pp_rest(s))) }

/// bytes side of one accepted decoder step: canonical key string, one well-typed value item, then the tail
#[verifier::spinoff_prover]
pub proof fn lemma_reencode_step_bytes(s: Seq<u8>, prev: Option<Seq<u8>>, acc: Map<Seq<u8>, Seq<u8>>)
    requires s.len() > 0, parse_pairs(s, prev, acc) is Some,
    ensures
        parse_pairs(s, prev, acc) == parse_pairs(pp_tail(s), Some(pp_key(s)), acc.insert(pp_key(s), pp_val(s))),
        s == rlp_str(pp_key(s)) + pp_val(s) + pp_tail(s),
        pp_tail(s).len() < s.len(),
        stored_ok(pp_key(s), pp_val(s)),
        prev is Some ==> lex_lt(prev->0, pp_key(s)),
{
    assert(parse_hdr(s) is Some);
    let hk = parse_hdr(s)->0;
    assert(!hk.list);
    let key = item_payload(s, hk);
    let rest = after(s, hk.hlen + hk.payload);
    assert(rest == pp_rest(s));
    assert(prev is Some ==> lex_lt(prev->0, key));
    assert(value_ok(key, rest));
    lemma_canon_item(s);
    lemma_item_split(s);
    assert(rlp_str(key) == item_raw(s, hk));
    lemma_value_ok_raw(key, rest);
    let hv = parse_hdr(rest)->0;
    let v = item_raw(rest, hv);
    let tail = after(rest, hv.hlen + hv.payload);
    assert(v == pp_val(s));
    assert(tail == pp_tail(s));
    lemma_item_split(rest);
    assert(s =~= rlp_str(key) + v + tail) by {
        assert(s == rlp_str(key) + rest);
        assert(rest == v + tail);
    }
}

/// map side of one decoder step: appending a key greater than the last one
pub proof fn lemma_reencode_step_map(acc: Map<Seq<u8>, Seq<u8>>, ks: Seq<Seq<u8>>, key: Seq<u8>, v: Seq<u8>)
    requires
        is_key_enum(acc.dom(), ks),
        values_ok(acc),
        stored_ok(key, v),
        ks.len() > 0 ==> lex_lt(ks.last(), key),
    ensures
        is_key_enum(acc.insert(key, v).dom(), ks.push(key)),
        values_ok(acc.insert(key, v)),
        pairs_rlp_keys(acc.insert(key, v), ks.push(key)) == pairs_rlp_keys(acc, ks) + rlp_str(key) + v,
{
    let acc2 = acc.insert(key, v);
    lemma_sorted_push_last(ks, key);
    lemma_enum_push(acc.dom(), ks, key);
    assert(acc2.dom() =~= acc.dom().insert(key));
    assert(!ks.contains(key)) by {
        if ks.contains(key) {
            let i = choose|i: int| 0 <= i < ks.len() && ks[i] == key;
            assert(lex_lt(ks[i], key));
            lemma_lex_irrefl(key);
        }
    }
    assert forall|k: Seq<u8>| #[trigger] acc2.contains_key(k) implies stored_ok(k, acc2[k]) by {
        if k != key {
            assert(acc.contains_key(k));
        }
    }
    lemma_pairs_rlp_push(acc, ks, key, v);
}

/// accumulator form of the re-encoding lemma
#[verifier::spinoff_prover]
pub proof fn lemma_parse_pairs_reencode_acc(s: Seq<u8>, prev: Option<Seq<u8>>, acc: Map<Seq<u8>, Seq<u8>>, ks: Seq<Seq<u8>>, m: Map<Seq<u8>, Seq<u8>>)
    requires
        is_key_enum(acc.dom(), ks),
        values_ok(acc),
        prev is None ==> ks.len() == 0,
        prev is Some ==> ks.len() > 0 && ks.last() == prev->0,
        parse_pairs(s, prev, acc) == Some(m),
    ensures
        pairs_rlp_keys(acc, ks) + s == pairs_rlp(m),
        values_ok(m),
    decreases s.len()
{
    hide(parse_hdr);
    if s.len() == 0 {
        assert(m == acc);
        lemma_pairs_rlp_enum(acc, ks);
        assert(pairs_rlp_keys(acc, ks) + s =~= pairs_rlp_keys(acc, ks));
    } else {
        let key = pp_key(s);
        let v = pp_val(s);
        let tail = pp_tail(s);
        lemma_reencode_step_bytes(s, prev, acc);
        lemma_reencode_step_map(acc, ks, key, v);
        let ks2 = ks.push(key);
        let acc2 = acc.insert(key, v);
        assert(ks2.last() == key);
        lemma_parse_pairs_reencode_acc(tail, Some(key), acc2, ks2, m);
        let a = pairs_rlp_keys(acc, ks);
        assert(a + s =~= (a + rlp_str(key) + v) + tail);
    }
}

/// what the pair parser accepts, it accepts canonically: the parsed map re-encodes to exactly the parsed bytes,
/// and every stored value is exactly one well-typed item
pub proof fn lemma_parse_pairs_reencode(s: Seq<u8>, m: Map<Seq<u8>, Seq<u8>>)
    requires
        parse_pairs(s, None, Map::empty()) == Some(m),
    ensures
        pairs_rlp(m) == s,
        values_ok(m),
{
    let acc = Map::<Seq<u8>, Seq<u8>>::empty();
    let ks = Seq::<Seq<u8>>::empty();
    assert(is_key_enum(acc.dom(), ks));
    lemma_parse_pairs_reencode_acc(s, None, acc, ks, m);
    assert(pairs_rlp_keys(acc, ks) + s =~= s);
}

/// outer layer: a list item that fills the whole buffer is its header followed by its payload
pub proof fn lemma_reencode_outer(item: Seq<u8>)
    requires parse_hdr(item) matches Some(h) && h.list && h.hlen + h.payload == item.len(),
    ensures ({ let h = parse_hdr(item)->0; let p = item_payload(item, h);
        &&& p.len() == h.payload
        &&& hdr(true, p.len()) + p == item }),
{
    let h = parse_hdr(item)->0;
    lemma_canon_item(item);
    assert(item_raw(item, h) =~= item);
}
/// a leading string item is the canonical encoding of its payload
pub proof fn lemma_reencode_str(p: Seq<u8>)
    requires parse_hdr(p) matches Some(hs) && !hs.list,
    ensures ({ let hs = parse_hdr(p)->0;
        p == rlp_str(item_payload(p, hs)) + after(p, hs.hlen + hs.payload) }),
{
    lemma_canon_item(p);
    lemma_item_split(p);
}
/// a leading canonical integer of at most 8 bytes is the canonical encoding of its value, which fits a u64
pub proof fn lemma_reencode_uint(p2: Seq<u8>)
    requires uint_ok(p2, 8),
    ensures ({ let hq = parse_hdr(p2)->0; let n = be_val(item_payload(p2, hq));
        &&& n <= u64::MAX
        &&& p2 == rlp_uint(n) + after(p2, hq.hlen + hq.payload) }),
{
    let hq = parse_hdr(p2)->0;
    let q = item_payload(p2, hq);
    lemma_canon_item(p2);
    lemma_item_split(p2);
    assert(q.len() == hq.payload);
    lemma_be_trim_val(q);
    lemma_be_val_u64(q);
}

/// what the record oracle accepts re-encodes to exactly the accepted item (canonical uniqueness of the encoding)
#[verifier::spinoff_prover]
pub proof fn lemma_record_parse_reencode(item: Seq<u8>)
    requires
        parse_record_struct(item) is Some,
    ensures
        ({ let v = parse_record_struct(item)->0;
           &&& record_rlp(v.sig, v.seq, v.content) == item
           &&& values_ok(v.content)
           &&& v.seq <= u64::MAX
           &&& item.len() <= 300 }),
{
    hide(parse_hdr);
    let v = parse_record_struct(item)->0;
    assert(parse_hdr(item) is Some);
    let h = parse_hdr(item)->0;
    assert(h.list && h.hlen + h.payload == item.len() && item.len() <= 300);
    let p = item_payload(item, h);
    lemma_reencode_outer(item);
    // signature
    assert(parse_hdr(p) is Some);
    let hs = parse_hdr(p)->0;
    assert(!hs.list);
    let sig = item_payload(p, hs);
    lemma_reencode_str(p);
    let p2 = after(p, hs.hlen + hs.payload);
    // sequence number
    assert(uint_ok(p2, 8));
    let hq = parse_hdr(p2)->0;
    let seq = be_val(item_payload(p2, hq));
    lemma_reencode_uint(p2);
    // pairs
    let tail = after(p2, hq.hlen + hq.payload);
    assert(parse_pairs(tail, None, Map::empty()) is Some);
    let c = parse_pairs(tail, None, Map::empty())->0;
    lemma_parse_pairs_reencode(tail, c);
    assert(v == RecView { seq: seq, sig: sig, content: c });
    assert(record_payload(sig, seq, c) =~= p) by {
        assert(p == rlp_str(sig) + p2);
        assert(p2 == rlp_uint(seq) + tail);
        assert(pairs_rlp(c) == tail);
    }
}

