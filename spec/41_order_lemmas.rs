// ===================================================================================
// SPEC LIBRARY: lexicographic order, sorted enumerations, pairs_rlp lemmas.  Pure Verus,
// fully verified; no assumptions.
// ===================================================================================
// ======== LEMMAS TO PROVE (statements fixed; fill in the bodies; add helper lemmas freely) ========
pub proof fn lemma_lex_irrefl(a: Seq<u8>)
    ensures !lex_lt(a, a),
    decreases a.len(),
{
    if a.len() > 0 {
        lemma_lex_irrefl(a.drop_first());
    }
}
pub proof fn lemma_lex_asym(a: Seq<u8>, b: Seq<u8>)
    ensures lex_lt(a, b) ==> !lex_lt(b, a),
    decreases a.len(),
{
    if a.len() > 0 && b.len() > 0 && a[0] == b[0] {
        lemma_lex_asym(a.drop_first(), b.drop_first());
    }
}
pub proof fn lemma_lex_trans(a: Seq<u8>, b: Seq<u8>, c: Seq<u8>)
    requires lex_lt(a, b), lex_lt(b, c),
    ensures lex_lt(a, c),
    decreases a.len(),
{
    if a.len() > 0 && b.len() > 0 && c.len() > 0 {
        if a[0] == b[0] && b[0] == c[0] {
            lemma_lex_trans(a.drop_first(), b.drop_first(), c.drop_first());
        }
    }
}
pub proof fn lemma_lex_total(a: Seq<u8>, b: Seq<u8>)
    ensures lex_lt(a, b) || a == b || lex_lt(b, a),
    decreases a.len(),
{
    if a.len() > 0 && b.len() > 0 {
        if a[0] == b[0] {
            lemma_lex_total(a.drop_first(), b.drop_first());
            if a.drop_first() == b.drop_first() {
                assert(a =~= seq![a[0]] + a.drop_first());
                assert(b =~= seq![b[0]] + b.drop_first());
                assert(a == b);
            }
        }
    } else if a.len() == 0 && b.len() == 0 {
        assert(a =~= b);
    }
}
/// a strictly sorted sequence has no duplicates
pub proof fn lemma_sorted_no_dup(s: Seq<Seq<u8>>)
    requires strictly_sorted(s),
    ensures s.no_duplicates(),
{
    assert forall|i: int, j: int| 0 <= i < s.len() && 0 <= j < s.len() && i != j implies s[i] != s[j] by {
        if i < j {
            assert(lex_lt(s[i], s[j]));
            lemma_lex_irrefl(s[i]);
        } else {
            assert(lex_lt(s[j], s[i]));
            lemma_lex_irrefl(s[j]);
        }
    }
}

// ---- helpers on sorted sequences ----
proof fn lemma_sorted_drop_last(s: Seq<Seq<u8>>)
    requires strictly_sorted(s), s.len() > 0,
    ensures
        strictly_sorted(s.drop_last()),
        forall|i: int| 0 <= i < s.drop_last().len() ==> lex_lt(#[trigger] s.drop_last()[i], s.last()),
        !s.drop_last().contains(s.last()),
        forall|x: Seq<u8>| #![trigger s.contains(x)] #![trigger s.drop_last().contains(x)] s.contains(x) <==> (s.drop_last().contains(x) || x == s.last()),
{
    let p = s.drop_last();
    let l = s.last();
    assert forall|i: int, j: int| 0 <= i < j < p.len() implies lex_lt(#[trigger] p[i], #[trigger] p[j]) by {
        assert(p[i] == s[i] && p[j] == s[j]);
    }
    assert forall|i: int| 0 <= i < p.len() implies lex_lt(#[trigger] p[i], l) by {
        assert(p[i] == s[i]);
        assert(l == s[s.len() - 1]);
    }
    if p.contains(l) {
        let i = choose|i: int| 0 <= i < p.len() && p[i] == l;
        assert(lex_lt(p[i], l));
        lemma_lex_irrefl(l);
    }
    assert forall|x: Seq<u8>| #![trigger s.contains(x)] #![trigger p.contains(x)] s.contains(x) <==> (p.contains(x) || x == l) by {
        if s.contains(x) {
            let i = choose|i: int| 0 <= i < s.len() && s[i] == x;
            if i < p.len() {
                assert(p[i] == x);
            }
        }
        if p.contains(x) {
            let i = choose|i: int| 0 <= i < p.len() && p[i] == x;
            assert(s[i] == x);
        }
        if x == l {
            assert(s[s.len() - 1] == x);
        }
    }
}
proof fn lemma_sorted_push(s: Seq<Seq<u8>>, k: Seq<u8>)
    requires strictly_sorted(s), forall|i: int| 0 <= i < s.len() ==> lex_lt(#[trigger] s[i], k),
    ensures
        strictly_sorted(s.push(k)),
        forall|x: Seq<u8>| #![trigger s.push(k).contains(x)] #![trigger s.contains(x)] s.push(k).contains(x) <==> (s.contains(x) || x == k),
{
    let t = s.push(k);
    assert forall|i: int, j: int| 0 <= i < j < t.len() implies lex_lt(#[trigger] t[i], #[trigger] t[j]) by {
        assert(t[i] == s[i]);
        if j < s.len() {
            assert(t[j] == s[j]);
        } else {
            assert(t[j] == k);
        }
    }
    assert forall|x: Seq<u8>| #![trigger t.contains(x)] #![trigger s.contains(x)] t.contains(x) <==> (s.contains(x) || x == k) by {
        if t.contains(x) {
            let i = choose|i: int| 0 <= i < t.len() && t[i] == x;
            if i < s.len() {
                assert(s[i] == x);
            }
        }
        if s.contains(x) {
            let i = choose|i: int| 0 <= i < s.len() && s[i] == x;
            assert(t[i] == x);
        }
        if x == k {
            assert(t[s.len() as int] == x);
        }
    }
}

/// two strictly increasing enumerations of the same set are equal
#[verifier::spinoff_prover]
pub proof fn lemma_enum_unique(d: Set<Seq<u8>>, s1: Seq<Seq<u8>>, s2: Seq<Seq<u8>>)
    requires is_key_enum(d, s1), is_key_enum(d, s2),
    ensures s1 == s2,
    decreases s1.len(),
{
    if s1.len() == 0 {
        if s2.len() > 0 {
            assert(s2[0] == s2[0]);
            assert(s2.contains(s2[0]));
            assert(d.contains(s2[0]));
            assert(s1.contains(s2[0]));
        }
        assert(s1 =~= s2);
    } else if s2.len() == 0 {
        assert(s1.contains(s1[0]));
        assert(d.contains(s1[0]));
        assert(s2.contains(s1[0]));
    } else {
        let l1 = s1.last();
        let l2 = s2.last();
        let p1 = s1.drop_last();
        let p2 = s2.drop_last();
        lemma_sorted_drop_last(s1);
        lemma_sorted_drop_last(s2);
        assert(s1.contains(l1));
        assert(s2.contains(l2));
        assert(d.contains(l1) && d.contains(l2));
        if l1 != l2 {
            assert(s2.contains(l1));
            assert(p2.contains(l1));
            let i = choose|i: int| 0 <= i < p2.len() && p2[i] == l1;
            assert(lex_lt(p2[i], l2));
            assert(s1.contains(l2));
            assert(p1.contains(l2));
            let j = choose|j: int| 0 <= j < p1.len() && p1[j] == l2;
            assert(lex_lt(p1[j], l1));
            lemma_lex_asym(l1, l2);
            assert(false);
        }
        let d2 = d.remove(l1);
        assert forall|x: Seq<u8>| d2.contains(x) <==> #[trigger] p1.contains(x) by { let _ = s1.contains(x); }
        assert forall|x: Seq<u8>| d2.contains(x) <==> #[trigger] p2.contains(x) by { let _ = s2.contains(x); }
        lemma_enum_unique(d2, p1, p2);
        assert(s1 =~= p1.push(l1));
        assert(s2 =~= p2.push(l2));
    }
}

spec fn is_max(d: Set<Seq<u8>>, m: Seq<u8>) -> bool {
    d.contains(m) && forall|x: Seq<u8>| #[trigger] d.contains(x) && x != m ==> lex_lt(x, m)
}
proof fn lemma_max_exists(d: Set<Seq<u8>>)
    requires d.finite(), d.len() > 0,
    ensures exists|m: Seq<u8>| is_max(d, m),
    decreases d.len(),
{
    let x = d.choose();
    assert(d.contains(x));
    let d2 = d.remove(x);
    assert(d2.len() == d.len() - 1);
    if d2.len() == 0 {
        d2.lemma_len0_is_empty();
        assert forall|y: Seq<u8>| #[trigger] d.contains(y) && y != x implies lex_lt(y, x) by {
            assert(d2.contains(y));
        }
        assert(is_max(d, x));
    } else {
        lemma_max_exists(d2);
        let m2 = choose|m: Seq<u8>| is_max(d2, m);
        lemma_lex_total(x, m2);
        if lex_lt(x, m2) {
            assert forall|y: Seq<u8>| #[trigger] d.contains(y) && y != m2 implies lex_lt(y, m2) by {
                if y != x {
                    assert(d2.contains(y));
                }
            }
            assert(is_max(d, m2));
        } else {
            assert(lex_lt(m2, x));
            assert forall|y: Seq<u8>| #[trigger] d.contains(y) && y != x implies lex_lt(y, x) by {
                assert(d2.contains(y));
                if y != m2 {
                    lemma_lex_trans(y, m2, x);
                }
            }
            assert(is_max(d, x));
        }
    }
}
proof fn lemma_enum_build(d: Set<Seq<u8>>) -> (s: Seq<Seq<u8>>)
    requires d.finite(),
    ensures is_key_enum(d, s), s.len() == d.len(),
    decreases d.len(),
{
    if d.len() == 0 {
        d.lemma_len0_is_empty();
        let s = Seq::<Seq<u8>>::empty();
        assert(is_key_enum(d, s));
        s
    } else {
        lemma_max_exists(d);
        let m = choose|m: Seq<u8>| is_max(d, m);
        let d2 = d.remove(m);
        let s2 = lemma_enum_build(d2);
        assert forall|i: int| 0 <= i < s2.len() implies lex_lt(#[trigger] s2[i], m) by {
            assert(s2.contains(s2[i]));
            assert(d2.contains(s2[i]));
        }
        lemma_enum_push(d2, s2, m);
        assert(d2.insert(m) =~= d);
        s2.push(m)
    }
}
/// every finite set of byte strings has a strictly increasing enumeration
pub proof fn lemma_enum_exists(d: Set<Seq<u8>>)
    requires d.finite(),
    ensures is_key_enum(d, sorted_keys(d)), sorted_keys(d).len() == d.len(),
{
    let s = lemma_enum_build(d);
    assert(is_key_enum(d, s));
    assert(is_key_enum(d, sorted_keys(d)));
    lemma_enum_unique(d, s, sorted_keys(d));
}
/// appending a key greater than all listed ones
pub proof fn lemma_enum_push(d: Set<Seq<u8>>, s: Seq<Seq<u8>>, k: Seq<u8>)
    requires is_key_enum(d, s), forall|i: int| 0 <= i < s.len() ==> lex_lt(#[trigger] s[i], k),
    ensures is_key_enum(d.insert(k), s.push(k)),
{
    lemma_sorted_push(s, k);
}
/// it is enough for the new key to exceed the last one
pub proof fn lemma_sorted_push_last(s: Seq<Seq<u8>>, k: Seq<u8>)
    requires strictly_sorted(s), s.len() > 0 ==> lex_lt(s.last(), k),
    ensures forall|i: int| 0 <= i < s.len() ==> lex_lt(#[trigger] s[i], k),
{
    assert forall|i: int| 0 <= i < s.len() implies lex_lt(#[trigger] s[i], k) by {
        if i < s.len() - 1 {
            assert(lex_lt(s[i], s[s.len() - 1]));
            lemma_lex_trans(s[i], s.last(), k);
        }
    }
}
/// pairs_rlp is determined by any sorted enumeration of the domain
pub proof fn lemma_pairs_rlp_enum(m: Map<Seq<u8>, Seq<u8>>, s: Seq<Seq<u8>>)
    requires is_key_enum(m.dom(), s),
    ensures pairs_rlp(m) == pairs_rlp_keys(m, s),
{
    assert(is_key_enum(m.dom(), sorted_keys(m.dom())));
    lemma_enum_unique(m.dom(), sorted_keys(m.dom()), s);
}
/// pairs_rlp_keys only reads the listed keys
pub proof fn lemma_pairs_rlp_keys_agree(m1: Map<Seq<u8>, Seq<u8>>, m2: Map<Seq<u8>, Seq<u8>>, ks: Seq<Seq<u8>>)
    requires forall|i: int| 0 <= i < ks.len() ==> m1[#[trigger] ks[i]] == m2[ks[i]],
    ensures pairs_rlp_keys(m1, ks) == pairs_rlp_keys(m2, ks),
    decreases ks.len(),
{
    if ks.len() > 0 {
        let p = ks.drop_last();
        assert forall|i: int| 0 <= i < p.len() implies m1[#[trigger] p[i]] == m2[p[i]] by {
            assert(p[i] == ks[i]);
        }
        lemma_pairs_rlp_keys_agree(m1, m2, p);
        assert(ks.last() == ks[ks.len() - 1]);
    }
}
/// one more pair at the end
pub proof fn lemma_pairs_rlp_push(m: Map<Seq<u8>, Seq<u8>>, ks: Seq<Seq<u8>>, k: Seq<u8>, v: Seq<u8>)
    requires !ks.contains(k),
    ensures pairs_rlp_keys(m.insert(k, v), ks.push(k)) == pairs_rlp_keys(m, ks) + rlp_str(k) + v,
{
    let m2 = m.insert(k, v);
    let t = ks.push(k);
    assert(t.drop_last() =~= ks);
    assert(t.last() == k);
    assert forall|i: int| 0 <= i < ks.len() implies m2[#[trigger] ks[i]] == m[ks[i]] by {
        assert(ks.contains(ks[i]));
        assert(ks[i] != k);
    }
    lemma_pairs_rlp_keys_agree(m2, m, ks);
    assert(m2[k] == v);
}
/// the map's domain is finite, hence (with lemma_enum_exists) sorted_keys enumerates it
pub proof fn lemma_pairs_rlp_def(m: Map<Seq<u8>, Seq<u8>>)
    requires m.dom().finite(),
    ensures is_key_enum(m.dom(), sorted_keys(m.dom())),
{
    lemma_enum_exists(m.dom());
}

// ---- deleting a key from a sorted key list ----
spec fn del(s: Seq<Seq<u8>>, k: Seq<u8>) -> Seq<Seq<u8>>
    decreases s.len(),
{
    if s.len() == 0 {
        s
    } else if s.last() == k {
        s.drop_last()
    } else {
        del(s.drop_last(), k).push(s.last())
    }
}
proof fn lemma_del_props(s: Seq<Seq<u8>>, k: Seq<u8>)
    requires strictly_sorted(s),
    ensures
        strictly_sorted(del(s, k)),
        forall|x: Seq<u8>| #![trigger del(s, k).contains(x)] #![trigger s.contains(x)] del(s, k).contains(x) <==> (s.contains(x) && x != k),
    decreases s.len(),
{
    if s.len() == 0 {
    } else {
        let p = s.drop_last();
        let l = s.last();
        lemma_sorted_drop_last(s);
        if l == k {
        } else {
            lemma_del_props(p, k);
            let q = del(p, k);
            assert forall|i: int| 0 <= i < q.len() implies lex_lt(#[trigger] q[i], l) by {
                assert(q.contains(q[i]));
                assert(p.contains(q[i]));
                let j = choose|j: int| 0 <= j < p.len() && p[j] == q[i];
                assert(lex_lt(p[j], l));
            }
            lemma_sorted_push(q, l);
        }
    }
}
proof fn lemma_del_len(m: Map<Seq<u8>, Seq<u8>>, s: Seq<Seq<u8>>, k: Seq<u8>)
    requires strictly_sorted(s), s.contains(k),
    ensures
        pairs_rlp_keys(m.remove(k), del(s, k)).len() + rlp_str(k).len() + m[k].len() == pairs_rlp_keys(m, s).len(),
    decreases s.len(),
{
    let m2 = m.remove(k);
    if s.len() == 0 {
        let i = choose|i: int| 0 <= i < s.len() && s[i] == k;
        assert(false);
    } else {
        let p = s.drop_last();
        let l = s.last();
        lemma_sorted_drop_last(s);
        if l == k {
            assert forall|i: int| 0 <= i < p.len() implies m2[#[trigger] p[i]] == m[p[i]] by {
                assert(p.contains(p[i]));
                assert(p[i] != k);
            }
            lemma_pairs_rlp_keys_agree(m2, m, p);
        } else {
            assert(p.contains(k));
            lemma_del_len(m, p, k);
            let q = del(p, k);
            let t = q.push(l);
            assert(del(s, k) == t);
            assert(t.drop_last() =~= q);
            assert(t.last() == l);
            assert(m2[l] == m[l]);
            assert(pairs_rlp_keys(m2, t) == pairs_rlp_keys(m2, q) + rlp_str(l) + m2[l]);
            assert(pairs_rlp_keys(m, s) == pairs_rlp_keys(m, p) + rlp_str(l) + m[l]);
        }
    }
}

/// total length of the pairs = sum over the keys (needed for size reasoning): inserting a fresh key adds |rlp_str(k)| + |v|,
/// replacing a value changes the length by the difference, removing subtracts
pub proof fn lemma_pairs_len_insert(m: Map<Seq<u8>, Seq<u8>>, k: Seq<u8>, v: Seq<u8>)
    requires m.dom().finite(),
    ensures
        !m.contains_key(k) ==> pairs_rlp(m.insert(k, v)).len() == pairs_rlp(m).len() + rlp_str(k).len() + v.len(),
        m.contains_key(k) ==> pairs_rlp(m.insert(k, v)).len() + m[k].len() == pairs_rlp(m).len() + v.len(),
{
    let m2 = m.insert(k, v);
    assert(m2.dom() =~= m.dom().insert(k));
    assert(m2.contains_key(k));
    assert(m2[k] == v);
    lemma_pairs_len_remove(m2, k);
    if m.contains_key(k) {
        lemma_pairs_len_remove(m, k);
        assert(m2.remove(k) =~= m.remove(k));
    } else {
        assert(m2.remove(k) =~= m);
    }
}
pub proof fn lemma_pairs_len_remove(m: Map<Seq<u8>, Seq<u8>>, k: Seq<u8>)
    requires m.dom().finite(), m.contains_key(k),
    ensures pairs_rlp(m.remove(k)).len() + rlp_str(k).len() + m[k].len() == pairs_rlp(m).len(),
{
    let d = m.dom();
    let s = sorted_keys(d);
    lemma_enum_exists(d);
    lemma_del_props(s, k);
    let m2 = m.remove(k);
    assert(m2.dom() =~= d.remove(k));
    assert(is_key_enum(m2.dom(), del(s, k)));
    lemma_pairs_rlp_enum(m2, del(s, k));
    assert(s.contains(k));
    lemma_del_len(m, s, k);
}
