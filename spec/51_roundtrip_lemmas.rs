// ===================================================================================
// SPEC LIBRARY: length lemmas, canonical encodings parse back, and the ROUND-TRIP theorem
// (a well-formed record that fits in 300 bytes is accepted by the oracle, which reports
// exactly its fields).  Pure Verus, fully verified; no assumptions.
// ===================================================================================
// ======== LEMMAS TO PROVE (statements fixed; fill in bodies; add helpers freely) ========
// =====================================================================================

// ---- group 1: lengths ----
pub proof fn lemma_be_trim_len_mono(a: nat, b: nat)
    requires a <= b,
    ensures be_trim(a).len() <= be_trim(b).len(),
    decreases a,
{

    if a != 0 {
        assert(a / 256 <= b / 256) by (nonlinear_arith) requires a <= b;
        lemma_be_trim_len_mono(a / 256, b / 256);
    }
}
pub proof fn lemma_be_trim_len_u64(n: nat)
    requires n <= u64::MAX,
    ensures be_trim(n).len() <= 8,
{

    reveal_with_fuel(be_trim, 10);
    assert(n / 256 / 256 / 256 / 256 / 256 / 256 / 256 / 256 == 0) by (nonlinear_arith) requires n <= 0xffff_ffff_ffff_ffff;
}
pub proof fn lemma_hdr_len_mono(list: bool, a: nat, b: nat)
    requires a <= b,
    ensures hdr(list, a).len() <= hdr(list, b).len(),
{

    if a >= 56 {
        lemma_be_trim_len_mono(a, b);
    }
}
pub proof fn lemma_hdr_len_bound(list: bool, n: nat)
    requires n <= u64::MAX,
    ensures 1 <= hdr(list, n).len() <= 9,
{

    lemma_be_trim_len_u64(n);
}

proof fn lemma_be_trim_single(n: nat)
    requires be_trim(n).len() == 1,
    ensures 0 < n < 256, be_trim(n) == seq![n as u8],
{
    reveal_with_fuel(be_trim, 3);
    if n >= 256 {
        assert(n / 256 > 0) by (nonlinear_arith) requires n >= 256;
    }
    assert(be_trim(n) =~= seq![n as u8]);
}
pub proof fn lemma_rlp_uint_len_mono(a: nat, b: nat)
    requires a <= b,
    ensures rlp_uint(a).len() <= rlp_uint(b).len(),
{

    let ta = be_trim(a);
    let tb = be_trim(b);
    lemma_be_trim_len_mono(a, b);
    lemma_hdr_len_mono(false, ta.len(), tb.len());
    lemma_rlp_str_len(ta);
    lemma_rlp_str_len(tb);
    if ta.len() == 1 {
        lemma_be_trim_single(a);
        if tb.len() == 1 {
            lemma_be_trim_single(b);
        }
    }
}
pub proof fn lemma_rlp_uint_len_bound(n: nat)
    requires n <= u64::MAX,
    ensures 1 <= rlp_uint(n).len() <= 9,
{

    lemma_be_trim_len_u64(n);
    lemma_rlp_str_len(be_trim(n));
}
/// the encoded length of a string depends only on its length, except for the single-byte case
pub proof fn lemma_rlp_str_len(b: Seq<u8>)
    ensures
        b.len() != 1 ==> rlp_str(b).len() == hdr(false, b.len()).len() + b.len(),
        b.len() == 1 ==> 1 <= rlp_str(b).len() <= 2,
{

}
/// record length is monotone in the sequence number and depends on the signature only through its length (when that is not 1)
pub proof fn lemma_record_len_mono(sig: Seq<u8>, s1: nat, s2: nat, m: Map<Seq<u8>, Seq<u8>>)
    requires s1 <= s2,
    ensures record_rlp(sig, s1, m).len() <= record_rlp(sig, s2, m).len(),
{

    lemma_rlp_uint_len_mono(s1, s2);
    let p1 = record_payload(sig, s1, m);
    let p2 = record_payload(sig, s2, m);
    assert(p1.len() == rlp_str(sig).len() + rlp_uint(s1).len() + pairs_rlp(m).len());
    assert(p2.len() == rlp_str(sig).len() + rlp_uint(s2).len() + pairs_rlp(m).len());
    lemma_hdr_len_mono(true, p1.len(), p2.len());
}
pub proof fn lemma_record_len_sig(sig1: Seq<u8>, sig2: Seq<u8>, seq: nat, m: Map<Seq<u8>, Seq<u8>>)
    requires sig1.len() == sig2.len(), sig1.len() != 1,
    ensures record_rlp(sig1, seq, m).len() == record_rlp(sig2, seq, m).len(),
{

    lemma_rlp_str_len(sig1);
    lemma_rlp_str_len(sig2);
    let p1 = record_payload(sig1, seq, m);
    let p2 = record_payload(sig2, seq, m);
    assert(p1.len() == rlp_str(sig1).len() + rlp_uint(seq).len() + pairs_rlp(m).len());
    assert(p2.len() == rlp_str(sig2).len() + rlp_uint(seq).len() + pairs_rlp(m).len());
}
/// relation between the signed content and the full record (used by the builder's size test):
/// |record| = |hdr(list, |rlp_str(sig)| + P)| + |rlp_str(sig)| + P   where P = |content payload|
pub proof fn lemma_record_vs_content(sig: Seq<u8>, seq: nat, m: Map<Seq<u8>, Seq<u8>>)
    ensures
        record_payload(sig, seq, m) == rlp_str(sig) + content_payload(seq, m),
        record_rlp(sig, seq, m).len() == hdr(true, rlp_str(sig).len() + content_payload(seq, m).len()).len() + rlp_str(sig).len() + content_payload(seq, m).len(),
        content_rlp(seq, m).len() == hdr(true, content_payload(seq, m).len()).len() + content_payload(seq, m).len(),
{

    assert(record_payload(sig, seq, m) =~= rlp_str(sig) + content_payload(seq, m));
}

// ---- group 2: canonical encodings parse back ----
/// a canonical integer parses as a canonical integer of the right width and value
pub proof fn lemma_rlp_uint_parses(n: nat, width: nat, rest: Seq<u8>)
    requires 1 <= width <= 8, be_trim(n).len() <= width,
    ensures
        uint_ok(rlp_uint(n) + rest, width),
        parse_hdr(rlp_uint(n) + rest) matches Some(h) && h.hlen + h.payload == rlp_uint(n).len()
            && be_val(item_payload(rlp_uint(n) + rest, h)) == n,
{

    let t = be_trim(n);
    lemma_parse_hdr_str(t, rest);
    lemma_be_val_trim(n);
    let s = rlp_uint(n) + rest;
    let h = parse_hdr(s)->0;
    assert(item_payload(s, h) == t);
    if n > 0 {
        lemma_be_trim_nonzero_head(n);
    }
}
pub proof fn lemma_be_trim_len_u16(n: nat)
    requires n <= u16::MAX,
    ensures be_trim(n).len() <= 2,
{

    reveal_with_fuel(be_trim, 4);
    assert(n / 256 / 256 == 0) by (nonlinear_arith) requires n <= 0xffff;
}
/// a byte string (shorter than 2^32 bytes) parses as exactly itself
pub proof fn lemma_rlp_str_one_item(b: Seq<u8>)
    requires b.len() < 0x1_0000_0000,
    ensures
        one_item(rlp_str(b)),
        parse_hdr(rlp_str(b)) matches Some(h) && !h.list && item_payload(rlp_str(b), h) == b,
{

    lemma_parse_hdr_str(b, Seq::empty());
    assert(rlp_str(b) + Seq::<u8>::empty() =~= rlp_str(b));
}
/// a list header followed by its payload parses back (payload shorter than 2^32 bytes)
#[verifier::spinoff_prover]
pub proof fn lemma_parse_hdr_list(p: Seq<u8>, rest: Seq<u8>)
    requires p.len() < 0x1_0000_0000,
    ensures
        parse_hdr(hdr(true, p.len()) + p + rest) matches Some(h) && h.list && h.payload == p.len()
            && h.hlen == hdr(true, p.len()).len()
            && item_payload(hdr(true, p.len()) + p + rest, h) == p,
{

    let n = p.len();
    let s = hdr(true, n) + p + rest;
    if n < 56 {
        assert(s[0] == (0xC0 + n) as u8);
        assert(s.subrange(1, 1 + n as int) =~= p);
    } else {
        let t = be_trim(n);
        lemma_be_trim_nonzero_head(n);
        lemma_be_trim_len_bound(n);
        assert(s[0] == (0xF7 + t.len()) as u8);
        assert(s.subrange(1, 1 + t.len() as int) =~= t);
        lemma_be_val_trim(n);
        assert(s[1] == t[0]);
        assert(s.subrange(1 + t.len() as int, 1 + t.len() + n as int) =~= p);
    }
}
/// parse_hdr only looks at the item: appending bytes after a well-framed item does not change the header
#[verifier::spinoff_prover]
pub proof fn lemma_parse_hdr_prefix(s: Seq<u8>, rest: Seq<u8>)
    requires parse_hdr(s) is Some,
    ensures
        parse_hdr(s + rest) == parse_hdr(s),
        item_raw(s + rest, parse_hdr(s)->0) == item_raw(s, parse_hdr(s)->0),
        item_payload(s + rest, parse_hdr(s)->0) == item_payload(s, parse_hdr(s)->0),
        value_ok_prefix_stable(s, rest),
{

    let h = parse_hdr(s)->0;
    let s2 = s + rest;
    let b = s[0];
    assert(s2[0] == b);
    if b < 0x80 {
    } else if b <= 0xB7 {
        if b == 0x81 {
            assert(s2[1] == s[1]);
        }
    } else if b <= 0xBF || b >= 0xF8 {
        let ll = (h.hlen - 1) as nat;
        assert(s2[1] == s[1]);
        assert(s2.subrange(1, 1 + ll as int) =~= s.subrange(1, 1 + ll as int));
    } else {
    }
    assert(parse_hdr(s2) == parse_hdr(s));
    assert(item_raw(s2, h) =~= item_raw(s, h));
    assert(item_payload(s2, h) =~= item_payload(s, h));
    assert forall|key: Seq<u8>| #[trigger] value_ok(key, s) implies value_ok(key, s2) by {
    }
}
pub open spec fn value_ok_prefix_stable(s: Seq<u8>, rest: Seq<u8>) -> bool {
    forall|key: Seq<u8>| #[trigger] value_ok(key, s) ==> value_ok(key, s + rest)
}

// ---- group 3: the decoder oracle accepts every encoding of a well-formed content ----

/// left-to-right concatenation of the pairs for keys ks[i..]
pub open spec fn pairs_from(m: Map<Seq<u8>, Seq<u8>>, ks: Seq<Seq<u8>>, i: int) -> Seq<u8>
    decreases ks.len() - i
{
    if i < 0 || i >= ks.len() { Seq::empty() } else { rlp_str(ks[i]) + m[ks[i]] + pairs_from(m, ks, i + 1) }
}
/// m restricted to ks[0..i], built by successive inserts (the decoder's accumulator)
pub open spec fn acc_upto(m: Map<Seq<u8>, Seq<u8>>, ks: Seq<Seq<u8>>, i: int) -> Map<Seq<u8>, Seq<u8>>
    decreases i
{
    if i <= 0 { Map::empty() } else { acc_upto(m, ks, i - 1).insert(ks[i - 1], m[ks[i - 1]]) }
}
pub proof fn lemma_acc_upto_props(m: Map<Seq<u8>, Seq<u8>>, ks: Seq<Seq<u8>>, i: int)
    requires 0 <= i <= ks.len(),
    ensures
        forall|k: Seq<u8>| #[trigger] acc_upto(m, ks, i).contains_key(k) <==> (exists|j: int| 0 <= j < i && ks[j] == k),
        forall|k: Seq<u8>| #[trigger] acc_upto(m, ks, i).contains_key(k) ==> acc_upto(m, ks, i)[k] == m[k],
    decreases i,
{
    if i > 0 {
        lemma_acc_upto_props(m, ks, i - 1);
        let a0 = acc_upto(m, ks, i - 1);
        let a = acc_upto(m, ks, i);
        assert(a == a0.insert(ks[i - 1], m[ks[i - 1]]));
        assert forall|k: Seq<u8>| #[trigger] a.contains_key(k) <==> (exists|j: int| 0 <= j < i && ks[j] == k) by {
            if a.contains_key(k) {
                if k == ks[i - 1] {
                    assert(0 <= i - 1 < i && ks[i - 1] == k);
                } else {
                    assert(a0.contains_key(k));
                    let j = choose|j: int| 0 <= j < i - 1 && ks[j] == k;
                    assert(0 <= j < i && ks[j] == k);
                }
            }
            if exists|j: int| 0 <= j < i && ks[j] == k {
                let j = choose|j: int| 0 <= j < i && ks[j] == k;
                if j < i - 1 {
                    assert(0 <= j < i - 1 && ks[j] == k);
                    assert(a0.contains_key(k));
                }
            }
        }
    }
}
/// the drop_last recursion of pairs_rlp_keys agrees with the left-to-right concatenation
#[verifier::spinoff_prover]
pub proof fn lemma_pairs_from_agree(m: Map<Seq<u8>, Seq<u8>>, ks: Seq<Seq<u8>>, i: int)
    requires 0 <= i <= ks.len(),
    ensures pairs_rlp_keys(m, ks.subrange(0, i)) + pairs_from(m, ks, i) == pairs_rlp_keys(m, ks),
    decreases ks.len() - i,
{
    if i == ks.len() {
        assert(ks.subrange(0, i) =~= ks);
        assert(pairs_rlp_keys(m, ks) + Seq::<u8>::empty() =~= pairs_rlp_keys(m, ks));
    } else {
        lemma_pairs_from_agree(m, ks, i + 1);
        let a = ks.subrange(0, i);
        let b = ks.subrange(0, i + 1);
        assert(b.drop_last() =~= a);
        assert(b.last() == ks[i]);
        assert(pairs_rlp_keys(m, b) == pairs_rlp_keys(m, a) + rlp_str(ks[i]) + m[ks[i]]);
        assert(pairs_rlp_keys(m, a) + (rlp_str(ks[i]) + m[ks[i]] + pairs_from(m, ks, i + 1))
            =~= (pairs_rlp_keys(m, a) + rlp_str(ks[i]) + m[ks[i]]) + pairs_from(m, ks, i + 1));
    }
}
pub open spec fn prev_key(ks: Seq<Seq<u8>>, i: int) -> Option<Seq<u8>> {
    if i > 0 { Some(ks[i - 1]) } else { None }
}
/// one decoder step on  rlp_str(k) + v + tail
#[verifier::spinoff_prover]
pub proof fn lemma_parse_pairs_step(k: Seq<u8>, v: Seq<u8>, tail: Seq<u8>, prev: Option<Seq<u8>>, acc: Map<Seq<u8>, Seq<u8>>)
    requires
        k.len() < 0x1_0000_0000,
        stored_ok(k, v),
        prev is Some ==> lex_lt(prev->0, k),
    ensures
        parse_pairs(rlp_str(k) + v + tail, prev, acc) == parse_pairs(tail, Some(k), acc.insert(k, v)),
{
    let s = rlp_str(k) + v + tail;
    let r = v + tail;
    assert(s =~= rlp_str(k) + r);
    lemma_parse_hdr_str(k, r);
    lemma_rlp_str_len(k);
    let hk = parse_hdr(s)->0;
    assert(s.len() > 0);
    assert(item_payload(s, hk) == k);
    assert(after(s, hk.hlen + hk.payload) =~= r);
    lemma_parse_hdr_prefix(v, tail);
    assert(value_ok(k, v));
    assert(value_ok(k, r));
    let hv = parse_hdr(r)->0;
    assert(hv == parse_hdr(v)->0);
    assert(hv.hlen + hv.payload == v.len());
    assert(item_raw(v, hv) =~= v);
    assert(item_raw(r, hv) == v);
    assert(after(r, hv.hlen + hv.payload) =~= tail);
}
pub proof fn lemma_parse_pairs_from(m: Map<Seq<u8>, Seq<u8>>, ks: Seq<Seq<u8>>, i: int)
    requires
        0 <= i <= ks.len(),
        strictly_sorted(ks),
        values_ok(m),
        forall|j: int| 0 <= j < ks.len() ==> #[trigger] m.contains_key(ks[j]) && ks[j].len() < 0x1_0000_0000,
    ensures
        parse_pairs(pairs_from(m, ks, i), prev_key(ks, i), acc_upto(m, ks, i)) == Some(acc_upto(m, ks, ks.len() as int)),
    decreases ks.len() - i,
{
    if i == ks.len() {
        assert(pairs_from(m, ks, i) =~= Seq::<u8>::empty());
    } else {
        let k = ks[i];
        assert(m.contains_key(k));
        assert(stored_ok(k, m[k]));
        if i > 0 {
            assert(lex_lt(ks[i - 1], ks[i]));
        }
        lemma_parse_pairs_step(k, m[k], pairs_from(m, ks, i + 1), prev_key(ks, i), acc_upto(m, ks, i));
        lemma_parse_pairs_from(m, ks, i + 1);
        assert(acc_upto(m, ks, i + 1) == acc_upto(m, ks, i).insert(k, m[k]));
    }
}
/// every listed key's encoding is part of the pairs
pub proof fn lemma_pairs_len_ge_key(m: Map<Seq<u8>, Seq<u8>>, ks: Seq<Seq<u8>>, j: int)
    requires 0 <= j < ks.len(),
    ensures pairs_rlp_keys(m, ks).len() >= rlp_str(ks[j]).len() >= ks[j].len(),
    decreases ks.len(),
{
    if j < ks.len() - 1 {
        lemma_pairs_len_ge_key(m, ks.drop_last(), j);
    }
}
/// all keys of m are at most as long as pairs_rlp(m)
pub proof fn lemma_pairs_key_bound(m: Map<Seq<u8>, Seq<u8>>)
    ensures forall|k: Seq<u8>| #[trigger] m.contains_key(k) ==> k.len() <= pairs_rlp(m).len(),
{
    let ks = sorted_keys(m.dom());
    lemma_enum_exists(m.dom());
    assert forall|k: Seq<u8>| #[trigger] m.contains_key(k) implies k.len() <= pairs_rlp(m).len() by {
        assert(m.dom().contains(k));
        assert(ks.contains(k));
        let j = choose|j: int| 0 <= j < ks.len() && ks[j] == k;
        lemma_pairs_len_ge_key(m, ks, j);
    }
}
/// parsing the pairs of a sorted key list (all keys non-empty... see requires) reproduces the map
pub proof fn lemma_parse_pairs_roundtrip(m: Map<Seq<u8>, Seq<u8>>)
    requires
        values_ok(m),
        forall|k: Seq<u8>| #[trigger] m.contains_key(k) ==> k.len() < 0x1_0000_0000,
    ensures
        parse_pairs(pairs_rlp(m), None, Map::empty()) == Some(m),
{

    let ks = sorted_keys(m.dom());
    lemma_enum_exists(m.dom());
    assert forall|j: int| 0 <= j < ks.len() implies #[trigger] m.contains_key(ks[j]) && ks[j].len() < 0x1_0000_0000 by {
        assert(ks.contains(ks[j]));
        assert(m.dom().contains(ks[j]));
    }
    lemma_pairs_from_agree(m, ks, 0);
    assert(ks.subrange(0, 0) =~= Seq::<Seq<u8>>::empty());
    assert(pairs_rlp_keys(m, ks.subrange(0, 0)) =~= Seq::<u8>::empty());
    assert(pairs_rlp(m) =~= pairs_from(m, ks, 0));
    lemma_parse_pairs_from(m, ks, 0);
    lemma_acc_upto_props(m, ks, ks.len() as int);
    let a = acc_upto(m, ks, ks.len() as int);
    assert forall|k: Seq<u8>| a.contains_key(k) <==> m.contains_key(k) by {
        if m.contains_key(k) {
            assert(m.dom().contains(k));
            assert(ks.contains(k));
            let j = choose|j: int| 0 <= j < ks.len() && ks[j] == k;
            assert(0 <= j < ks.len() && ks[j] == k);
        }
        if a.contains_key(k) {
            let j = choose|j: int| 0 <= j < ks.len() && ks[j] == k;
            assert(ks.contains(k));
        }
    }
    assert(a =~= m);
}
/// outer layer of a record: list header, then the payload
proof fn lemma_record_outer(sig: Seq<u8>, seq: nat, m: Map<Seq<u8>, Seq<u8>>)
    requires record_rlp(sig, seq, m).len() <= 300,
    ensures
        record_payload(sig, seq, m).len() <= 300,
        rlp_str(sig).len() + rlp_uint(seq).len() + pairs_rlp(m).len() == record_payload(sig, seq, m).len(),
        parse_hdr(record_rlp(sig, seq, m)) matches Some(h) && h.list && h.hlen + h.payload == record_rlp(sig, seq, m).len()
            && item_payload(record_rlp(sig, seq, m), h) == record_payload(sig, seq, m),
{
    let r = record_rlp(sig, seq, m);
    let p = record_payload(sig, seq, m);
    assert(r.len() == hdr(true, p.len()).len() + p.len());
    lemma_parse_hdr_list(p, Seq::empty());
    assert(hdr(true, p.len()) + p + Seq::<u8>::empty() =~= r);
}
/// inner layer: signature string, sequence number, then the pairs
#[verifier::spinoff_prover]
proof fn lemma_record_inner(sig: Seq<u8>, seq: nat, prs: Seq<u8>)
    requires sig.len() < 0x1_0000_0000, seq <= u64::MAX,
    ensures ({
        let p = rlp_str(sig) + rlp_uint(seq) + prs;
        &&& parse_hdr(p) matches Some(hs) && !hs.list && item_payload(p, hs) == sig && ({
            let p2 = after(p, hs.hlen + hs.payload);
            &&& uint_ok(p2, 8)
            &&& parse_hdr(p2) matches Some(hq) && be_val(item_payload(p2, hq)) == seq && after(p2, hq.hlen + hq.payload) == prs
        })
    }),
{
    let p = rlp_str(sig) + rlp_uint(seq) + prs;
    let tail = rlp_uint(seq) + prs;
    assert(p =~= rlp_str(sig) + tail);
    lemma_parse_hdr_str(sig, tail);
    let hs = parse_hdr(p)->0;
    assert(item_payload(p, hs) == sig);
    let p2 = after(p, hs.hlen + hs.payload);
    assert(p2 =~= tail);
    lemma_be_trim_len_u64(seq);
    lemma_rlp_uint_parses(seq, 8, prs);
    let hq = parse_hdr(p2)->0;
    assert(after(p2, hq.hlen + hq.payload) =~= prs);
}
/// ROUND TRIP: a record whose values are well formed and which fits in 300 bytes is accepted by the
/// structural oracle, which reports exactly its fields
pub proof fn lemma_record_roundtrip(sig: Seq<u8>, seq: nat, m: Map<Seq<u8>, Seq<u8>>)
    requires
        values_ok(m),
        seq <= u64::MAX,
        record_rlp(sig, seq, m).len() <= 300,
    ensures
        parse_record_struct(record_rlp(sig, seq, m)) == Some(RecView { seq: seq, sig: sig, content: m }),
{
    lemma_record_outer(sig, seq, m);
    lemma_rlp_str_len(sig);
    lemma_record_inner(sig, seq, pairs_rlp(m));
    lemma_pairs_key_bound(m);
    lemma_parse_pairs_roundtrip(m);
}
/// hence the signed content determines sequence number and pairs
#[verifier::spinoff_prover]
pub proof fn lemma_content_rlp_injective(s1: nat, m1: Map<Seq<u8>, Seq<u8>>, s2: nat, m2: Map<Seq<u8>, Seq<u8>>)
    requires
        values_ok(m1), values_ok(m2), s1 <= u64::MAX, s2 <= u64::MAX,
        content_rlp(s1, m1).len() <= 300, content_rlp(s2, m2).len() <= 300,
        content_rlp(s1, m1) == content_rlp(s2, m2),
    ensures
        s1 == s2, m1 == m2,
{

    let p1 = content_payload(s1, m1);
    let p2 = content_payload(s2, m2);
    let c = content_rlp(s1, m1);
    lemma_parse_hdr_list(p1, Seq::empty());
    lemma_parse_hdr_list(p2, Seq::empty());
    assert(hdr(true, p1.len()) + p1 + Seq::<u8>::empty() =~= c);
    assert(hdr(true, p2.len()) + p2 + Seq::<u8>::empty() =~= c);
    assert(p1 == p2);
    lemma_be_trim_len_u64(s1);
    lemma_be_trim_len_u64(s2);
    lemma_rlp_uint_parses(s1, 8, pairs_rlp(m1));
    lemma_rlp_uint_parses(s2, 8, pairs_rlp(m2));
    assert(s1 == s2);
    let n = rlp_uint(s1).len();
    assert(after(p1, n) =~= pairs_rlp(m1));
    assert(after(p2, n) =~= pairs_rlp(m2));
    lemma_pairs_key_bound(m1);
    lemma_pairs_key_bound(m2);
    lemma_parse_pairs_roundtrip(m1);
    lemma_parse_pairs_roundtrip(m2);
}


/// the reserved key names are pairwise distinct
pub proof fn lemma_keys_distinct()
    ensures
        ID() != IP(), ID() != IP6(), ID() != TCP(), ID() != TCP6(), ID() != UDP(), ID() != UDP6(), ID() != SECP(), ID() != ED(), ID() != CLIENT(),
        IP() != IP6(), IP() != TCP(), IP() != TCP6(), IP() != UDP(), IP() != UDP6(), IP() != SECP(), IP() != ED(), IP() != CLIENT(),
        IP6() != TCP(), IP6() != TCP6(), IP6() != UDP(), IP6() != UDP6(), IP6() != SECP(), IP6() != ED(), IP6() != CLIENT(),
        TCP() != TCP6(), TCP() != UDP(), TCP() != UDP6(), TCP() != SECP(), TCP() != ED(), TCP() != CLIENT(),
        TCP6() != UDP(), TCP6() != UDP6(), TCP6() != SECP(), TCP6() != ED(), TCP6() != CLIENT(),
        UDP() != UDP6(), UDP() != SECP(), UDP() != ED(), UDP() != CLIENT(),
        UDP6() != SECP(), UDP6() != ED(), UDP6() != CLIENT(),
        SECP() != ED(), SECP() != CLIENT(), ED() != CLIENT(),
        !is_port_key(ID()), !is_port_key(IP()), !is_port_key(IP6()), !is_port_key(SECP()), !is_port_key(ED()), !is_port_key(CLIENT()),
{
    assert(ID().len() == 2 && IP().len() == 2 && IP6().len() == 3 && TCP().len() == 3 && TCP6().len() == 4 && UDP().len() == 3
        && UDP6().len() == 4 && SECP().len() == 9 && ED().len() == 7 && CLIENT().len() == 6);
    assert(ID()[1] != IP()[1]);
    assert(IP6()[0] != TCP()[0] && IP6()[0] != UDP()[0] && TCP()[0] != UDP()[0] && TCP6()[0] != UDP6()[0]);
}

// ---- typed values written by the setters are well formed and read back ----
pub proof fn lemma_port_stored(key: Seq<u8>, p: nat)
    requires is_port_key(key), p <= u16::MAX,
    ensures
        stored_ok(key, rlp_uint(p)),
        uint_ok(rlp_uint(p), 2),
        be_val(item_payload(rlp_uint(p), parse_hdr(rlp_uint(p))->0)) == p,
{
    lemma_be_trim_len_u16(p);
    lemma_rlp_uint_parses(p, 2, Seq::empty());
    assert(rlp_uint(p) + Seq::<u8>::empty() =~= rlp_uint(p));
    lemma_keys_distinct();
}
pub proof fn lemma_fixed_str_stored(key: Seq<u8>, o: Seq<u8>)
    requires o.len() < 0x1_0000_0000,
    ensures
        one_item(rlp_str(o)),
        fixed_str_ok(rlp_str(o), o.len()),
        parse_hdr(rlp_str(o)) matches Some(h) && !h.list && item_payload(rlp_str(o), h) == o,
{
    lemma_rlp_str_stored(o);
}
pub proof fn lemma_ip4_stored(o: Seq<u8>)
    requires o.len() == 4,
    ensures stored_ok(IP(), rlp_str(o)),
{
    lemma_fixed_str_stored(IP(), o);
    lemma_keys_distinct();
}
pub proof fn lemma_ip6_stored(o: Seq<u8>)
    requires o.len() == 16,
    ensures stored_ok(IP6(), rlp_str(o)),
{
    lemma_fixed_str_stored(IP6(), o);
    lemma_keys_distinct();
}
pub proof fn lemma_id_stored()
    ensures stored_ok(ID(), rlp_str(V4())),
{
    lemma_rlp_str_stored(V4());
}

// ---- small-length facts used by the builder's size window ----
pub proof fn lemma_hdr_len_small(list: bool, n: nat)
    ensures
        n < 56 ==> hdr(list, n).len() == 1,
        56 <= n < 256 ==> hdr(list, n).len() == 2,
        256 <= n < 65536 ==> hdr(list, n).len() == 3,
        hdr(list, n).len() >= 1,
{
    reveal_with_fuel(be_trim, 4);
    if 56 <= n && n < 256 {
        assert(n / 256 == 0);
    } else if 256 <= n && n < 65536 {
        assert(n / 256 > 0 && n / 256 < 256);
        assert(n / 256 / 256 == 0);
    }
}
pub proof fn lemma_rlp_str_len_small(b: Seq<u8>)
    requires b.len() < 65536,
    ensures b.len() <= rlp_str(b).len() <= b.len() + 3, rlp_str(b).len() >= 1,
{
    lemma_hdr_len_small(false, b.len());
}
