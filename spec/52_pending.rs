
// PENDING (temporary, replaced by the proved versions): statements only
#[verifier::external_body]
pub proof fn lemma_record_parse_reencode(item: Seq<u8>)
    requires
        parse_record_struct(item) is Some,
    ensures
        ({ let v = parse_record_struct(item)->0;
           &&& record_rlp(v.sig, v.seq, v.content) == item
           &&& values_ok(v.content)
           &&& v.seq <= u64::MAX
           &&& item.len() <= 300 }),
{ }
#[verifier::external_body]
pub proof fn lemma_item_raw_one(s: Seq<u8>)
    requires parse_hdr(s) is Some,
    ensures
        one_item(item_raw(s, parse_hdr(s)->0)),
        parse_hdr(item_raw(s, parse_hdr(s)->0)) == parse_hdr(s),
        item_payload(item_raw(s, parse_hdr(s)->0), parse_hdr(s)->0) == item_payload(s, parse_hdr(s)->0),
{ }
