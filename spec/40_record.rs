// ===================================================================================
// SPEC LIBRARY: record content as an abstract map, ordering of keys.  Pure Verus.
// ===================================================================================
pub type Key = Vec<u8>;

pub open spec fn lex_lt(a: Seq<u8>, b: Seq<u8>) -> bool
    decreases a.len()
{
    if b.len() == 0 { false } else if a.len() == 0 { true }
    else if a[0] < b[0] { true } else if a[0] > b[0] { false }
    else { lex_lt(a.drop_first(), b.drop_first()) }
}

/// abstract content of the record's `BTreeMap<Vec<u8>, Bytes>`: keyed by byte strings, raw RLP values
#[verifier::opaque]
pub open spec fn cmap(m: Map<Key, Bytes>) -> Map<Seq<u8>, Seq<u8>> {
    Map::new(
        m.dom().map(|kk: Key| kk@),
        |k: Seq<u8>| bview(&m[choose|kk: Key| #[trigger] m.contains_key(kk) && kk@ == k]),
    )
}

// ---------- sorted enumeration of an abstract content map ----------
pub open spec fn strictly_sorted(s: Seq<Seq<u8>>) -> bool {
    forall|i: int, j: int| 0 <= i < j < s.len() ==> lex_lt(#[trigger] s[i], #[trigger] s[j])
}
/// `s` lists exactly the elements of `d`, in strictly increasing lexicographic order
pub open spec fn is_key_enum(d: Set<Seq<u8>>, s: Seq<Seq<u8>>) -> bool {
    &&& strictly_sorted(s)
    &&& forall|k: Seq<u8>| d.contains(k) <==> s.contains(k)
}
pub open spec fn sorted_keys(d: Set<Seq<u8>>) -> Seq<Seq<u8>> {
    choose|s: Seq<Seq<u8>>| is_key_enum(d, s)
}
/// key/value pairs of `m` for the keys `ks`, each key as an RLP string followed by the raw RLP value
pub open spec fn pairs_rlp_keys(m: Map<Seq<u8>, Seq<u8>>, ks: Seq<Seq<u8>>) -> Seq<u8>
    decreases ks.len()
{
    if ks.len() == 0 { Seq::empty() } else { pairs_rlp_keys(m, ks.drop_last()) + rlp_str(ks.last()) + m[ks.last()] }
}
pub open spec fn pairs_rlp(m: Map<Seq<u8>, Seq<u8>>) -> Seq<u8> {
    pairs_rlp_keys(m, sorted_keys(m.dom()))
}
/// EIP-778 signed content: the RLP list [seq, k1, v1, ...]
pub open spec fn content_payload(seq: nat, m: Map<Seq<u8>, Seq<u8>>) -> Seq<u8> { rlp_uint(seq) + pairs_rlp(m) }
pub open spec fn content_rlp(seq: nat, m: Map<Seq<u8>, Seq<u8>>) -> Seq<u8> {
    hdr(true, content_payload(seq, m).len()) + content_payload(seq, m)
}
/// EIP-778 record: the RLP list [signature, seq, k1, v1, ...]
pub open spec fn record_payload(sig: Seq<u8>, seq: nat, m: Map<Seq<u8>, Seq<u8>>) -> Seq<u8> {
    rlp_str(sig) + rlp_uint(seq) + pairs_rlp(m)
}
pub open spec fn record_rlp(sig: Seq<u8>, seq: nat, m: Map<Seq<u8>, Seq<u8>>) -> Seq<u8> {
    hdr(true, record_payload(sig, seq, m).len()) + record_payload(sig, seq, m)
}
