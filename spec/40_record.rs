// ===================================================================================
// SPEC LIBRARY: record content as an abstract map, ordering of keys.  Pure Verus.
// ===================================================================================
pub type Key = Vec<u8>;

pub open spec fn lex_lt(a: Seq<u8>, b: Seq<u8>) -> bool
    decreases a.len()
{
    if b.len() == 0 { false } else if a.len() == 0 { true }
    else if a[0] < b[0] { true } else if a[0] > b[0] { false }
    else { lex_lt(a.drop_first(), b.drop_first()) }
}

/// abstract content of the record's `BTreeMap<Vec<u8>, Bytes>`: keyed by byte strings, raw RLP values
pub open spec fn cmap(m: Map<Key, Bytes>) -> Map<Seq<u8>, Seq<u8>> {
    Map::new(
        m.dom().map(|kk: Key| kk@),
        |k: Seq<u8>| bview(&m[choose|kk: Key| #[trigger] m.contains_key(kk) && kk@ == k]),
    )
}
