// ===================================================================================
// SPEC LIBRARY: UTF-8 of the two ASCII literals the crate compares against.  Proved from vstd's
// definition of encode_utf8 (no assumption).
// ===================================================================================
pub proof fn lemma_utf8_v4()
    ensures utf8(seq!['v', '4']) == seq![0x76u8, 0x34u8],
{
    reveal_with_fuel(vstd::utf8::encode_utf8, 4);
    assert(('v' as u32) == 0x76);
    assert(('4' as u32) == 0x34);
    assert(0x76u32 & 127 == 0x76) by (bit_vector);
    assert(0x34u32 & 127 == 0x34) by (bit_vector);
    let s = seq!['v', '4'];
    assert(s.drop_first() =~= seq!['4']);
    assert(s.drop_first().drop_first() =~= Seq::<char>::empty());
    assert(vstd::utf8::encode_utf8(s) =~= seq![0x76u8, 0x34u8]);
}
pub proof fn lemma_utf8_enr()
    ensures utf8(seq!['e', 'n', 'r', ':']) == seq![0x65u8, 0x6eu8, 0x72u8, 0x3au8],
{
    reveal_with_fuel(vstd::utf8::encode_utf8, 6);
    assert(('e' as u32) == 0x65 && ('n' as u32) == 0x6e && ('r' as u32) == 0x72 && (':' as u32) == 0x3a);
    assert(0x65u32 & 127 == 0x65) by (bit_vector);
    assert(0x6eu32 & 127 == 0x6e) by (bit_vector);
    assert(0x72u32 & 127 == 0x72) by (bit_vector);
    assert(0x3au32 & 127 == 0x3a) by (bit_vector);
    let s = seq!['e', 'n', 'r', ':'];
    assert(s.drop_first() =~= seq!['n', 'r', ':']);
    assert(s.drop_first().drop_first() =~= seq!['r', ':']);
    assert(s.drop_first().drop_first().drop_first() =~= seq![':']);
    assert(s.drop_first().drop_first().drop_first().drop_first() =~= Seq::<char>::empty());
    assert(vstd::utf8::encode_utf8(s) =~= seq![0x65u8, 0x6eu8, 0x72u8, 0x3au8]);
}

pub proof fn lemma_utf8_0x()
    ensures utf8(seq!['0', 'x']) == seq![0x30u8, 0x78u8],
{
    reveal_with_fuel(vstd::utf8::encode_utf8, 4);
    assert(('0' as u32) == 0x30 && ('x' as u32) == 0x78);
    assert(0x30u32 & 127 == 0x30) by (bit_vector);
    assert(0x78u32 & 127 == 0x78) by (bit_vector);
    let s = seq!['0', 'x'];
    assert(s.drop_first() =~= seq!['x']);
    assert(s.drop_first().drop_first() =~= Seq::<char>::empty());
    assert(vstd::utf8::encode_utf8(s) =~= seq![0x30u8, 0x78u8]);
}
