// ===================================================================================
// SPEC LIBRARY: RLP (EIP-778 / Ethereum yellow paper, appendix B).  Pure Verus, fully
// verified; no assumptions.  Written from the RLP definition, not from alloy-rlp.
// ===================================================================================
// ---------- big-endian ----------
pub open spec fn be_val(s: Seq<u8>) -> nat
    decreases s.len()
{
    if s.len() == 0 { 0 } else { be_val(s.drop_last()) * 256 + s.last() as nat }
}
pub open spec fn be_trim(n: nat) -> Seq<u8>
    decreases n
{
    if n == 0 { Seq::empty() } else { be_trim(n / 256).push((n % 256) as u8) }
}
pub proof fn lemma_be_val_trim(n: nat)
    ensures be_val(be_trim(n)) == n,
    decreases n
{
    if n != 0 {
        lemma_be_val_trim(n / 256);
        let t = be_trim(n / 256).push((n % 256) as u8);
        assert(t.drop_last() =~= be_trim(n / 256));
        assert(t.last() == (n % 256) as u8);
    }
}
pub proof fn lemma_be_trim_nonzero_head(n: nat)
    requires n > 0
    ensures be_trim(n).len() > 0, be_trim(n)[0] != 0,
    decreases n
{
    if n / 256 != 0 {
        lemma_be_trim_nonzero_head(n / 256);
        assert(be_trim(n)[0] == be_trim(n / 256)[0]);
    } else {
        assert(be_trim(n / 256) =~= Seq::<u8>::empty());
        assert(be_trim(n) =~= seq![(n % 256) as u8]);
    }
}
pub proof fn lemma_be_trim_val(s: Seq<u8>)
    requires s.len() == 0 || s[0] != 0,
    ensures be_trim(be_val(s)) == s,
    decreases s.len()
{
    if s.len() == 0 {
    } else if s.len() == 1 {
        assert(s.drop_last() =~= Seq::<u8>::empty());
        assert(be_val(s.drop_last()) == 0);
        assert(s.last() == s[0]);
        assert(be_val(s) == s[0] as nat);
        assert(be_trim(0) =~= Seq::<u8>::empty());
        assert((s[0] as nat) / 256 == 0);
        assert((s[0] as nat) % 256 == s[0] as nat);
        assert(be_trim(s[0] as nat) =~= be_trim(0).push(s[0]));
        assert(be_trim(s[0] as nat) =~= seq![s[0]]);
        assert(s =~= seq![s[0]]);
    } else {
        let p = s.drop_last();
        assert(p[0] == s[0]);
        lemma_be_trim_val(p);
        let v = be_val(s);
        assert(v == be_val(p) * 256 + s.last() as nat);
        assert(be_val(p) > 0) by {
            lemma_be_val_pos(p);
        }
        assert(v / 256 == be_val(p)) by (nonlinear_arith) requires v == be_val(p) * 256 + s.last() as nat, (s.last() as nat) < 256;
        assert(v % 256 == s.last() as nat) by (nonlinear_arith) requires v == be_val(p) * 256 + s.last() as nat, (s.last() as nat) < 256;
        assert(be_trim(v) =~= p.push(s.last()));
        assert(p.push(s.last()) =~= s);
    }
}
pub proof fn lemma_be_val_pos(s: Seq<u8>)
    requires s.len() > 0, s[0] != 0,
    ensures be_val(s) > 0,
    decreases s.len()
{
    if s.len() == 1 {
        assert(s.drop_last() =~= Seq::<u8>::empty());
    } else {
        let p = s.drop_last();
        assert(p[0] == s[0]);
        lemma_be_val_pos(p);
        assert(be_val(s) >= be_val(p) * 256) ;
        assert(be_val(p) * 256 > 0) by (nonlinear_arith) requires be_val(p) > 0;
    }
}

// ---------- headers ----------
pub open spec fn hdr(list: bool, n: nat) -> Seq<u8> {
    let base: nat = if list { 0xC0 } else { 0x80 };
    if n < 56 { seq![(base + n) as u8] }
    else { seq![(base + 55 + be_trim(n).len()) as u8] + be_trim(n) }
}
pub open spec fn rlp_str(b: Seq<u8>) -> Seq<u8> {
    if b.len() == 1 && b[0] < 0x80 { b } else { hdr(false, b.len()) + b }
}
pub open spec fn rlp_uint(x: nat) -> Seq<u8> { rlp_str(be_trim(x)) }

pub struct Hdr { pub list: bool, pub payload: nat, pub hlen: nat }

/// strictly canonical header parse; None = malformed or payload does not fit
pub open spec fn parse_hdr(s: Seq<u8>) -> Option<Hdr> {
    if s.len() == 0 { None } else {
        let b = s[0];
        let r: Option<Hdr> =
        if b < 0x80 { Some(Hdr { list: false, payload: 1, hlen: 0 }) }
        else if b <= 0xB7 {
            let n = (b - 0x80) as nat;
            if n == 1 && (s.len() < 2 || s[1] < 0x80) { None } else { Some(Hdr { list: false, payload: n, hlen: 1 }) }
        } else if b <= 0xBF || b >= 0xF8 {
            let list = b >= 0xF8;
            let ll = (if list { b - 0xF7 } else { b - 0xB7 }) as nat;
            if s.len() < 1 + ll || s[1] == 0 { None } else {
                let v = be_val(s.subrange(1, 1 + ll as int));
                if v < 56 || v > usize::MAX { None } else { Some(Hdr { list, payload: v, hlen: 1 + ll }) }
            }
        } else { Some(Hdr { list: true, payload: (b - 0xC0) as nat, hlen: 1 }) };
        match r { Some(h) => if s.len() - h.hlen >= h.payload { Some(h) } else { None }, None => None }
    }
}
#[verifier::spinoff_prover]
pub proof fn lemma_parse_hdr_str(b: Seq<u8>, rest: Seq<u8>)
    requires b.len() < 0x1_0000_0000,
    ensures parse_hdr(rlp_str(b) + rest) matches Some(h) && !h.list && h.payload == b.len() && h.hlen + h.payload == rlp_str(b).len()
        && (rlp_str(b) + rest).subrange(h.hlen as int, (h.hlen + h.payload) as int) == b,
{
    let e = rlp_str(b);
    let s = e + rest;
    if b.len() == 1 && b[0] < 0x80 {
        assert(s.subrange(0, 1) =~= b);
    } else if b.len() < 56 {
        assert(s[0] == (0x80 + b.len()) as u8);
        if b.len() == 1 { assert(s[1] == b[0]); }
        assert(s.subrange(1, 1 + b.len() as int) =~= b);
    } else {
        let t = be_trim(b.len());
        lemma_be_trim_nonzero_head(b.len());
        lemma_be_trim_len_bound(b.len());
        assert(s[0] == (0xB7 + t.len()) as u8);
        assert(s.subrange(1, 1 + t.len() as int) =~= t);
        lemma_be_val_trim(b.len());
        assert(s[1] == t[0]);
        assert(s.subrange(1 + t.len() as int, 1 + t.len() + b.len() as int) =~= b);
    }
}
pub proof fn lemma_be_trim_len_bound(n: nat)
    requires n < 0x1_0000_0000,
    ensures be_trim(n).len() <= 4,
{
    reveal_with_fuel(be_trim, 6);
    assert(n / 256 / 256 / 256 / 256 == 0) by (nonlinear_arith) requires n < 0x1_0000_0000;
}


// ---------- items ----------
pub open spec fn after(s: Seq<u8>, n: nat) -> Seq<u8> { s.subrange(n as int, s.len() as int) }
pub open spec fn item_payload(s: Seq<u8>, h: Hdr) -> Seq<u8> { s.subrange(h.hlen as int, (h.hlen + h.payload) as int) }
pub open spec fn item_raw(s: Seq<u8>, h: Hdr) -> Seq<u8> { s.subrange(0, (h.hlen + h.payload) as int) }
/// total length of the first item of `s` (0 if `s` does not start with a well-framed item)
pub open spec fn item_total(s: Seq<u8>) -> nat {
    match parse_hdr(s) { Some(h) => h.hlen + h.payload, None => 0 }
}
/// `s` is exactly one well-framed item
pub open spec fn one_item(s: Seq<u8>) -> bool {
    parse_hdr(s) matches Some(h) && h.hlen + h.payload == s.len()
}
/// canonical unsigned integer of at most `width` bytes (no leading zero; single bytes < 0x80 unframed)
pub open spec fn uint_ok(s: Seq<u8>, width: nat) -> bool {
    parse_hdr(s) matches Some(h) && !h.list && h.payload <= width && (h.payload == 0 || item_payload(s, h)[0] != 0)
}
pub open spec fn fixed_str_ok(s: Seq<u8>, n: nat) -> bool {
    parse_hdr(s) matches Some(h) && !h.list && h.payload == n
}
pub open spec fn concat_all(items: Seq<Seq<u8>>) -> Seq<u8>
    decreases items.len()
{
    if items.len() == 0 { Seq::empty() } else { concat_all(items.drop_last()) + items.last() }
}
pub open spec fn rlp_list(items: Seq<Seq<u8>>) -> Seq<u8> {
    hdr(true, concat_all(items).len()) + concat_all(items)
}
#[verifier::spinoff_prover]
pub proof fn lemma_canon_item(s: Seq<u8>)
    requires parse_hdr(s) is Some,
    ensures ({ let h = parse_hdr(s)->0;
        &&& h.hlen + h.payload <= s.len()
        &&& (!h.list ==> rlp_str(item_payload(s, h)) == item_raw(s, h))
        &&& (h.list ==> hdr(true, h.payload) + item_payload(s, h) == item_raw(s, h))
        &&& (h.hlen + h.payload > 0) }),
{
    let h = parse_hdr(s)->0;
    let b = s[0];
    let p = item_payload(s, h);
    let raw = item_raw(s, h);
    if b < 0x80 {
        assert(p =~= raw);
    } else if b <= 0xB7 {
        assert(raw =~= seq![b] + p);
    } else if b <= 0xBF || b >= 0xF8 {
        let ll = (h.hlen - 1) as nat;
        let lb = s.subrange(1, 1 + ll as int);
        assert(lb[0] == s[1]);
        lemma_be_trim_val(lb);
        assert(be_trim(h.payload) == lb);
        assert(raw =~= seq![b] + lb + p);
    } else {
        assert(raw =~= seq![b] + p);
    }
}


/// a byte string (shorter than 2^32 bytes) encodes to exactly one string item holding it
pub proof fn lemma_rlp_str_stored(b: Seq<u8>)
    requires b.len() < 0x1_0000_0000,
    ensures
        one_item(rlp_str(b)),
        parse_hdr(rlp_str(b)) matches Some(h) && !h.list && item_payload(rlp_str(b), h) == b,
{
    lemma_parse_hdr_str(b, Seq::empty());
    assert(rlp_str(b) + Seq::<u8>::empty() =~= rlp_str(b));
}
