// ===================================================================================
// RLP lists of byte strings (the EIP-7636 `client` value is one): what `Vec<Bytes>::decode` reads.
// ===================================================================================

/// the payloads of the string items that `p` is the exact concatenation of (None if `p` is not such a concatenation)
pub open spec fn str_items(p: Seq<u8>) -> Option<Seq<Seq<u8>>>
    decreases p.len()
{
    if p.len() == 0 {
        Some(Seq::<Seq<u8>>::empty())
    } else {
        match parse_hdr(p) {
            Some(h) => if !h.list && 0 < h.hlen + h.payload <= p.len() {
                match str_items(after(p, h.hlen + h.payload)) {
                    Some(rest) => Some(seq![item_payload(p, h)] + rest),
                    None => None,
                }
            } else { None },
            None => None,
        }
    }
}
/// `s` starts with an RLP list whose payload is a concatenation of string items; the strings
pub open spec fn str_list(s: Seq<u8>) -> Option<Seq<Seq<u8>>> {
    match parse_hdr(s) {
        Some(h) => if h.list { str_items(item_payload(s, h)) } else { None },
        None => None,
    }
}

/// one more string item in front
pub proof fn lemma_str_items_cons(b: Seq<u8>, rest: Seq<u8>)
    requires b.len() < 0x1_0000_0000,
    ensures str_items(rlp_str(b) + rest) == (match str_items(rest) { Some(r) => Some(seq![b] + r), None => None::<Seq<Seq<u8>>> }),
{
    lemma_parse_hdr_str(b, rest);
    let s = rlp_str(b) + rest;
    let h = parse_hdr(s)->0;
    lemma_rlp_str_len(b);
    assert(rlp_str(b).len() > 0);
    assert(after(s, h.hlen + h.payload) =~= rest);
    assert(item_payload(s, h) == b);
}
/// length of a string item: payload plus a header of at most 9 bytes
pub proof fn lemma_rlp_str_len_le(b: Seq<u8>)
    requires b.len() < 0x1000_0000,
    ensures 1 <= rlp_str(b).len() <= b.len() + 9,
{
    lemma_rlp_str_len(b);
    lemma_hdr_len_bound(false, b.len());
}
pub proof fn lemma_concat_all_2(x: Seq<u8>, y: Seq<u8>)
    ensures concat_all(seq![x, y]) == x + y,
{
    reveal_with_fuel(concat_all, 3);
    assert(seq![x, y].drop_last() =~= seq![x]);
    assert(seq![x].drop_last() =~= Seq::<Seq<u8>>::empty());
    assert(Seq::<u8>::empty() + x =~= x);
}
pub proof fn lemma_concat_all_3(x: Seq<u8>, y: Seq<u8>, z: Seq<u8>)
    ensures concat_all(seq![x, y, z]) == x + (y + z),
{
    reveal_with_fuel(concat_all, 2);
    assert(seq![x, y, z].drop_last() =~= seq![x, y]);
    lemma_concat_all_2(x, y);
    assert((x + y) + z =~= x + (y + z));
}
/// a list header in front of a concatenation of string items
#[verifier::spinoff_prover]
pub proof fn lemma_str_list_of_payload(p: Seq<u8>, items: Seq<Seq<u8>>)
    requires p.len() < 0x1_0000_0000, str_items(p) == Some(items),
    ensures str_list(hdr(true, p.len()) + p) == Some(items),
{
    hide(str_items);
    lemma_parse_hdr_list(p, Seq::empty());
    assert(hdr(true, p.len()) + p + Seq::<u8>::empty() =~= hdr(true, p.len()) + p);
}
#[verifier::spinoff_prover]
pub proof fn lemma_str_items_2(a: Seq<u8>, b: Seq<u8>)
    requires a.len() < 0x1000_0000, b.len() < 0x1000_0000,
    ensures str_items(rlp_str(a) + rlp_str(b)) == Some(seq![a, b]),
{
    hide(rlp_str);
    hide(parse_hdr);
    assert(str_items(Seq::<u8>::empty()) == Some(Seq::<Seq<u8>>::empty()));
    lemma_str_items_cons(b, Seq::empty());
    assert(rlp_str(b) + Seq::<u8>::empty() =~= rlp_str(b));
    assert(seq![b] + Seq::<Seq<u8>>::empty() =~= seq![b]);
    lemma_str_items_cons(a, rlp_str(b));
    assert(seq![a] + seq![b] =~= seq![a, b]);
}
#[verifier::spinoff_prover]
pub proof fn lemma_str_items_3(a: Seq<u8>, b: Seq<u8>, c: Seq<u8>)
    requires a.len() < 0x1000_0000, b.len() < 0x1000_0000, c.len() < 0x1000_0000,
    ensures str_items(rlp_str(a) + (rlp_str(b) + rlp_str(c))) == Some(seq![a, b, c]),
{
    hide(rlp_str);
    hide(parse_hdr);
    lemma_str_items_2(b, c);
    lemma_str_items_cons(a, rlp_str(b) + rlp_str(c));
    assert(seq![a] + seq![b, c] =~= seq![a, b, c]);
}
/// the list of two / three strings reads back as those strings
#[verifier::spinoff_prover]
pub proof fn lemma_str_list_2(a: Seq<u8>, b: Seq<u8>)
    requires a.len() < 0x1000_0000, b.len() < 0x1000_0000,
    ensures str_list(rlp_list(seq![rlp_str(a), rlp_str(b)])) == Some(seq![a, b]),
{
    hide(rlp_str);
    hide(parse_hdr);
    hide(str_items);
    hide(str_list);
    hide(hdr);
    lemma_rlp_str_len_le(a); lemma_rlp_str_len_le(b);
    lemma_concat_all_2(rlp_str(a), rlp_str(b));
    lemma_str_items_2(a, b);
    lemma_str_list_of_payload(rlp_str(a) + rlp_str(b), seq![a, b]);
}
#[verifier::spinoff_prover]
pub proof fn lemma_str_list_3(a: Seq<u8>, b: Seq<u8>, c: Seq<u8>)
    requires a.len() < 0x1000_0000, b.len() < 0x1000_0000, c.len() < 0x1000_0000,
    ensures str_list(rlp_list(seq![rlp_str(a), rlp_str(b), rlp_str(c)])) == Some(seq![a, b, c]),
{
    hide(rlp_str);
    hide(parse_hdr);
    hide(str_items);
    hide(str_list);
    hide(hdr);
    lemma_rlp_str_len_le(a); lemma_rlp_str_len_le(b); lemma_rlp_str_len_le(c);
    lemma_concat_all_3(rlp_str(a), rlp_str(b), rlp_str(c));
    lemma_str_items_3(a, b, c);
    lemma_str_list_of_payload(rlp_str(a) + (rlp_str(b) + rlp_str(c)), seq![a, b, c]);
}
