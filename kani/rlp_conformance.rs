
// ---- injected by /verif (thorough tier): cross-check of the ASSUMED alloy-rlp contracts of prelude/20_fns.rs against an
// executable transcription of the spec functions parse_hdr / uint_ok / be_val / rlp_uint (spec/30_rlp.rs). BOUNDED: buffers
// of at most 12 bytes (header analysis is complete: a header has at most 9 bytes); never counted as proved.
#[cfg(kani)]
mod vp_kani_rlp {
    use alloy_rlp::{Decodable, Encodable, Header};

    /// transcription of spec fn parse_hdr: (list, payload, hlen)
    fn parse_hdr_exec(s: &[u8]) -> Option<(bool, usize, usize)> {
        if s.is_empty() {
            return None;
        }
        let b = s[0];
        let r: (bool, usize, usize) = if b < 0x80 {
            (false, 1, 0)
        } else if b <= 0xB7 {
            let n = (b - 0x80) as usize;
            if n == 1 && (s.len() < 2 || s[1] < 0x80) {
                return None;
            }
            (false, n, 1)
        } else if b <= 0xBF || b >= 0xF8 {
            let list = b >= 0xF8;
            let ll = (if list { b - 0xF7 } else { b - 0xB7 }) as usize;
            if s.len() < 1 + ll || s[1] == 0 {
                return None;
            }
            let mut v: u128 = 0;
            let mut i = 0;
            while i < ll {
                v = v * 256 + s[1 + i] as u128;
                i += 1;
            }
            if v < 56 || v > usize::MAX as u128 {
                return None;
            }
            (list, v as usize, 1 + ll)
        } else {
            (true, (b - 0xC0) as usize, 1)
        };
        if s.len() - r.2 >= r.1 {
            Some(r)
        } else {
            None
        }
    }

    #[kani::proof]
    #[kani::unwind(14)]
    fn header_decode_conforms() {
        let buf: [u8; 12] = kani::any();
        let len: usize = kani::any();
        kani::assume(len <= 12);
        let s = &buf[..len];
        let mut cur = s;
        let r = Header::decode(&mut cur);
        let p = parse_hdr_exec(s);
        match (r, p) {
            (Ok(h), Some((list, payload, hlen))) => {
                assert!(h.list == list);
                assert!(h.payload_length == payload);
                assert!(cur.len() == len - hlen);
            }
            (Err(_), None) => {}
            _ => assert!(false, "Header::decode and parse_hdr disagree on acceptance"),
        }
        kani::cover!(p.is_some());
        kani::cover!(p.is_none());
    }

    #[kani::proof]
    #[kani::unwind(14)]
    fn u16_decode_conforms() {
        let buf: [u8; 6] = kani::any();
        let len: usize = kani::any();
        kani::assume(len <= 6);
        let s = &buf[..len];
        let mut cur = s;
        let r = u16::decode(&mut cur);
        // uint_ok(s, 2): string item, payload <= 2 bytes, no leading zero
        let ok = match parse_hdr_exec(s) {
            Some((false, payload, hlen)) => payload <= 2 && (payload == 0 || s[hlen] != 0),
            _ => false,
        };
        assert!(r.is_ok() == ok);
        if let Ok(v) = r {
            let (_, payload, hlen) = parse_hdr_exec(s).unwrap();
            let mut val: u32 = 0;
            let mut i = 0;
            while i < payload {
                val = val * 256 + s[hlen + i] as u32;
                i += 1;
            }
            assert!(v as u32 == val);
            assert!(cur.len() == len - hlen - payload);
        }
    }

    #[kani::proof]
    #[kani::unwind(6)]
    fn u16_encode_conforms() {
        let x: u16 = kani::any();
        let mut out: Vec<u8> = Vec::new();
        x.encode(&mut out);
        // rlp_uint(x) = rlp_str(be_trim(x))
        if x == 0 {
            assert!(out.len() == 1 && out[0] == 0x80);
        } else if x < 0x80 {
            assert!(out.len() == 1 && out[0] == x as u8);
        } else if x < 0x100 {
            assert!(out.len() == 2 && out[0] == 0x81 && out[1] == x as u8);
        } else {
            assert!(out.len() == 3 && out[0] == 0x82 && out[1] == (x >> 8) as u8 && out[2] == x as u8);
        }
        assert!(x.length() == out.len());
    }

    #[kani::proof]
    #[kani::unwind(14)]
    fn header_decode_bytes_conforms() {
        let buf: [u8; 12] = kani::any();
        let len: usize = kani::any();
        kani::assume(len <= 12);
        let is_list: bool = kani::any();
        let s = &buf[..len];
        let mut cur = s;
        let r = Header::decode_bytes(&mut cur, is_list);
        match parse_hdr_exec(s) {
            Some((list, payload, hlen)) => {
                // Ok  <==>  the header's kind matches; then the payload slice and the advance are exact
                assert!(r.is_ok() == (list == is_list));
                if let Ok(b) = r {
                    assert!(b.len() == payload);
                    assert!(cur.len() == len - hlen - payload);
                    let mut i = 0;
                    while i < payload {
                        assert!(b[i] == s[hlen + i]);
                        i += 1;
                    }
                }
            }
            None => assert!(r.is_err()),
        }
    }

    #[kani::proof]
    #[kani::unwind(14)]
    fn u64_decode_conforms() {
        let buf: [u8; 11] = kani::any();
        let len: usize = kani::any();
        kani::assume(len <= 11);
        let s = &buf[..len];
        let mut cur = s;
        let r = u64::decode(&mut cur);
        let ok = match parse_hdr_exec(s) {
            Some((false, payload, hlen)) => payload <= 8 && (payload == 0 || s[hlen] != 0),
            _ => false,
        };
        assert!(r.is_ok() == ok);
        if let Ok(v) = r {
            let (_, payload, hlen) = parse_hdr_exec(s).unwrap();
            let mut val: u128 = 0;
            let mut i = 0;
            while i < payload {
                val = val * 256 + s[hlen + i] as u128;
                i += 1;
            }
            assert!(v as u128 == val);
            assert!(cur.len() == len - hlen - payload);
        }
    }

    #[kani::proof]
    #[kani::unwind(12)]
    fn header_encode_conforms() {
        // hdr(list, n): 1 byte for n < 56, else 1 + |be_trim(n)| bytes; length() agrees
        let list: bool = kani::any();
        let n: usize = kani::any();
        let h = Header { list, payload_length: n };
        let mut out: Vec<u8> = Vec::new();
        h.encode(&mut out);
        assert!(h.length() == out.len());
        let base: u8 = if list { 0xC0 } else { 0x80 };
        if n < 56 {
            assert!(out.len() == 1 && out[0] == base + n as u8);
        } else {
            let mut k = 0usize; // number of significant bytes of n
            let mut m = n;
            while m > 0 {
                m >>= 8;
                k += 1;
            }
            assert!(out.len() == 1 + k);
            assert!(out[0] == base + 55 + k as u8);
            let mut i = 0;
            while i < k {
                assert!(out[1 + i] == (n >> (8 * (k - 1 - i))) as u8);
                i += 1;
            }
        }
    }

    #[kani::proof]
    #[kani::unwind(10)]
    fn ipv4_decode_conforms() {
        let buf: [u8; 8] = kani::any();
        let len: usize = kani::any();
        kani::assume(len <= 8);
        let s = &buf[..len];
        let mut cur = s;
        let r = <std::net::Ipv4Addr as Decodable>::decode(&mut cur);
        // spec: fixed_str_ok(s, 4) -- a string item whose payload has exactly 4 bytes; the address is that payload
        match parse_hdr_exec(s) {
            Some((list, payload, hlen)) if !list && payload == 4 => {
                assert!(r.is_ok());
                let a = r.unwrap().octets();
                assert!(a[0] == s[hlen] && a[1] == s[hlen + 1] && a[2] == s[hlen + 2] && a[3] == s[hlen + 3]);
                assert!(cur.len() == len - hlen - 4);
            }
            _ => assert!(r.is_err()),
        }
    }

    #[kani::proof]
    #[kani::unwind(22)]
    fn ipv6_decode_conforms() {
        let buf: [u8; 20] = kani::any();
        let len: usize = kani::any();
        kani::assume(len <= 20);
        let s = &buf[..len];
        let mut cur = s;
        let r = <std::net::Ipv6Addr as Decodable>::decode(&mut cur);
        match parse_hdr_exec(s) {
            Some((list, payload, hlen)) if !list && payload == 16 => {
                assert!(r.is_ok());
                let a = r.unwrap().octets();
                let mut i = 0;
                while i < 16 { assert!(a[i] == s[hlen + i]); i += 1; }
                assert!(cur.len() == len - hlen - 16);
            }
            _ => assert!(r.is_err()),
        }
    }
}
