
// ---- injected by /verif (thorough tier): cross-check of the ASSUMED contract of the base64 engine (prelude/standin.rs: mod
// base64 -- "decode accepts exactly the canonical unpadded URL-safe texts, encode produces them") against an independent
// reference implementation.  BOUNDED: texts of at most 7 bytes (any byte values), inputs of at most 5 bytes; never counted as proved.
#[cfg(kani)]
mod vp_kani_b64 {
    use base64::{engine::general_purpose::URL_SAFE_NO_PAD, Engine as _};
    fn val(c: u8) -> Option<u8> {
        match c {
            b'A'..=b'Z' => Some(c - b'A'),
            b'a'..=b'z' => Some(c - b'a' + 26),
            b'0'..=b'9' => Some(c - b'0' + 52),
            b'-' => Some(62),
            b'_' => Some(63),
            _ => None,
        }
    }
    /// reference: unpadded URL-safe base64, strict (alphabet only, no length 1 mod 4, unused trailing bits zero)
    fn reference(s: &[u8], out: &mut [u8; 8]) -> Option<usize> {
        if s.len() % 4 == 1 { return None; }
        let mut acc: u32 = 0;
        let mut bits = 0u32;
        let mut n = 0usize;
        let mut i = 0;
        while i < s.len() {
            let v = val(s[i])?;
            acc = (acc << 6) | v as u32;
            bits += 6;
            if bits >= 8 {
                bits -= 8;
                out[n] = (acc >> bits) as u8;
                acc &= (1 << bits) - 1;
                n += 1;
            }
            i += 1;
        }
        if acc != 0 { return None; }
        Some(n)
    }
    #[kani::proof]
    #[kani::unwind(10)]
    fn decode_conforms() {
        let buf: [u8; 7] = kani::any();
        let len: usize = kani::any();
        kani::assume(len <= 7);
        let s = &buf[..len];
        let mut expect = [0u8; 8];
        let e = reference(s, &mut expect);
        let mut got = [0u8; 8];
        let r = URL_SAFE_NO_PAD.decode_slice(s, &mut got);
        match (r, e) {
            (Ok(n), Some(m)) => { assert!(n == m); let mut i = 0; while i < n { assert!(got[i] == expect[i]); i += 1; } }
            (Err(_), None) => {}
            _ => assert!(false, "engine and reference disagree on acceptance"),
        }
        kani::cover!(e.is_some() && len == 6);
        kani::cover!(e.is_none());
    }
    fn chr(v: u8) -> u8 {
        if v < 26 { b'A' + v } else if v < 52 { b'a' + (v - 26) } else if v < 62 { b'0' + (v - 52) } else if v == 62 { b'-' } else { b'_' }
    }
    #[kani::proof]
    #[kani::unwind(10)]
    fn encode_conforms() {
        let buf: [u8; 5] = kani::any();
        let len: usize = kani::any();
        kani::assume(len <= 5);
        let s = &buf[..len];
        let mut got = [0u8; 8];
        let n = URL_SAFE_NO_PAD.encode_slice(s, &mut got).unwrap();
        // reference encoder
        let mut exp = [0u8; 8];
        let mut m = 0usize;
        let mut acc: u32 = 0;
        let mut bits = 0u32;
        let mut i = 0;
        while i < len {
            acc = (acc << 8) | s[i] as u32;
            bits += 8;
            while bits >= 6 {
                bits -= 6;
                exp[m] = chr(((acc >> bits) & 63) as u8);
                m += 1;
            }
            acc &= (1 << bits) - 1;
            i += 1;
        }
        if bits > 0 { exp[m] = chr(((acc << (6 - bits)) & 63) as u8); m += 1; }
        assert!(n == m);
        let mut j = 0;
        while j < n { assert!(got[j] == exp[j]); j += 1; }
    }
}
