
// ---- injected by /verif (Kani side pipeline, DESIGN.md section 2); compiled only under cfg(kani)
#[cfg(kani)]
mod vp_kani {
    use super::*;

    /// modular route: the contract attributes injected on NodeId::parse are proved for every slice of at most 64 bytes
    #[kani::proof_for_contract(NodeId::parse)]
    #[kani::unwind(66)]
    fn parse_contract() {
        let len: usize = kani::any();
        kani::assume(len <= 64);
        let buf: [u8; 64] = kani::any();
        let r = NodeId::parse(&buf[..len]);
        kani::cover!(r.is_ok(), "parse can succeed");
        kani::cover!(r.is_err(), "parse can fail");
    }

    /// full-domain (loop-free up to the 32-byte copies): every accessor and conversion returns exactly the 32 bytes
    #[kani::proof]
    #[kani::unwind(34)]
    fn identity() {
        let raw: [u8; 32] = kani::any();
        let n = NodeId::new(&raw);
        assert!(n.raw() == raw);
        assert!(n.as_ref() == &raw[..]);
        assert!(n == raw);
        let m: NodeId = raw.into();
        assert!(m.raw() == raw);
        assert!(m == n);
        let p = NodeId::parse(&raw);
        assert!(p.is_ok());
        assert!(p.unwrap().raw() == raw);
        let other: [u8; 32] = kani::any();
        if other != raw {
            assert!(NodeId::new(&other) != n);
        }
    }
}
