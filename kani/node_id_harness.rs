
// ---- injected by /verif (Kani side pipeline, DESIGN.md section 2); compiled only under cfg(kani)
#[cfg(kani)]
mod vp_kani {
    use super::*;

    /// modular route: the contract attributes injected on NodeId::parse are proved for every slice of at most 64 bytes
    #[kani::proof_for_contract(NodeId::parse)]
    #[kani::unwind(66)]
    fn parse_contract() {
        let len: usize = kani::any();
        kani::assume(len <= 64);
        let buf: [u8; 64] = kani::any();
        let r = NodeId::parse(&buf[..len]);
        kani::cover!(r.is_ok(), "parse can succeed");
        kani::cover!(r.is_err(), "parse can fail");
    }

    /// full-domain (loop-free up to the 32-byte copies): every accessor and conversion returns exactly the 32 bytes
    #[kani::proof]
    #[kani::unwind(34)]
    fn identity() {
        let raw: [u8; 32] = kani::any();
        let n = NodeId::new(&raw);
        assert!(n.raw() == raw);
        assert!(n.as_ref() == &raw[..]);
        assert!(n == raw);
        let m: NodeId = raw.into();
        assert!(m.raw() == raw);
        assert!(m == n);
        let p = NodeId::parse(&raw);
        assert!(p.is_ok());
        assert!(p.unwrap().raw() == raw);
        let other: [u8; 32] = kani::any();
        if other != raw {
            assert!(NodeId::new(&other) != n);
        }
    }
}

/// JSON leg of C16 (bounded stand-in: every ASCII string of at most 70 bytes): what `#[derive(Deserialize)]` +
/// `serde_hex_prfx::deserialize` accept, driven through a minimal Deserializer that holds one borrowed string.
#[cfg(kani)]
mod vp_kani_serde {
    use super::*;
    use serde::de::{Deserializer, Visitor};
    use serde::Deserialize;

    #[derive(Debug)]
    pub struct E;
    impl core::fmt::Display for E {
        fn fmt(&self, _f: &mut core::fmt::Formatter<'_>) -> core::fmt::Result { Ok(()) }
    }
    impl std::error::Error for E {}
    impl serde::de::Error for E {
        fn custom<T: core::fmt::Display>(_msg: T) -> Self { E }
    }
    impl serde::ser::Error for E {
        fn custom<T: core::fmt::Display>(_msg: T) -> Self { E }
    }
    /// a deserializer that holds one borrowed string (what a JSON string token is for serde)
    pub struct StrDe<'a>(pub &'a str);
    impl<'de> Deserializer<'de> for StrDe<'de> {
        type Error = E;
        fn deserialize_any<V: Visitor<'de>>(self, visitor: V) -> Result<V::Value, E> { visitor.visit_borrowed_str(self.0) }
        serde::forward_to_deserialize_any! {
            bool i8 i16 i32 i64 i128 u8 u16 u32 u64 u128 f32 f64 char str string bytes byte_buf option unit unit_struct
            seq tuple tuple_struct map struct enum identifier ignored_any
        }
        fn deserialize_newtype_struct<V: Visitor<'de>>(self, _name: &'static str, visitor: V) -> Result<V::Value, E> { visitor.visit_newtype_struct(self) }
    }
    fn is_hex(b: u8) -> bool { (b >= b'0' && b <= b'9') || (b >= b'a' && b <= b'f') || (b >= b'A' && b <= b'F') }
    fn hexval(b: u8) -> u8 { if b <= b'9' { b - b'0' } else if b >= b'a' { b - b'a' + 10 } else { b - b'A' + 10 } }

    #[kani::proof]
    #[kani::unwind(72)]
    fn deserialize_exact() {
        let buf: [u8; 70] = kani::any();
        let len: usize = kani::any();
        kani::assume(len <= 70);
        let mut i = 0;
        while i < 70 { kani::assume(buf[i] < 128); i += 1; }
        let s = unsafe { core::str::from_utf8_unchecked(&buf[..len]) };
        let r: Result<NodeId, E> = NodeId::deserialize(StrDe(s));
        let off = if len >= 2 && buf[0] == b'0' && buf[1] == b'x' { 2 } else { 0 };
        let mut all_hex = true;
        let mut j = off;
        while j < len { if !is_hex(buf[j]) { all_hex = false; } j += 1; }
        let expect_ok = len - off == 64 && all_hex;
        assert!(r.is_ok() == expect_ok);
        if let Ok(n) = r {
            let raw = n.raw();
            let mut k = 0;
            while k < 32 { assert!(raw[k] == hexval(buf[off + 2 * k]) * 16 + hexval(buf[off + 2 * k + 1])); k += 1; }
        }
        kani::cover!(expect_ok && off == 2, "prefixed form accepted");
        kani::cover!(expect_ok && off == 0, "bare form accepted");
    }
}
