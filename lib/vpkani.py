"""Kani side pipeline: leaf functions that never touch the record's BTreeMap (DESIGN.md section 2)."""
import hashlib
import json
import os
import re
import shutil
import subprocess
import tempfile
import time

import vpdriver as D

PARSE_CONTRACT = '''    #[cfg_attr(kani, kani::requires(raw_input.len() <= 64))]
    #[cfg_attr(kani, kani::ensures(|r: &Result<NodeId, &'static str>| r.is_ok() == (raw_input.len() == 32)))]
    #[cfg_attr(kani, kani::ensures(|r: &Result<NodeId, &'static str>| match r { Ok(id) => id.raw[..] == raw_input[..], Err(_) => true }))]
'''

HARNESSES = {
    'C16': [('vp_kani::parse_contract', ['-Z', 'function-contracts'], 'C16.parse.iff/C16.parse.bytes (Kani function contract on the real NodeId::parse, slices <= 64 bytes)'),
            ('vp_kani::identity', [], 'C16.identity.* (all 32-byte values: new/raw/as_ref/==/From/parse round trip)'),
            ('vp_kani_serde::deserialize_exact', [], 'C16.serde.deserialize (BOUNDED: every ASCII string of <= 70 bytes): NodeId::deserialize is Ok exactly for 64 hex digits with or without one 0x prefix, and yields those bytes')],
}


# thorough tier only: cross-checks of ASSUMED dependency contracts (never counted as proved, never deciding)
RLP_HARNESSES = [
    ('vp_kani_rlp::header_decode_conforms', 'alloy_rlp::Header::decode == spec parse_hdr on every buffer of <= 12 bytes (header analysis complete; payload-fits bounded)'),
    ('vp_kani_rlp::u16_decode_conforms', '<u16 as Decodable>::decode == uint_ok(.,2) / be_val on every buffer of <= 6 bytes'),
    ('vp_kani_rlp::u16_encode_conforms', '<u16 as Encodable>::encode/length == rlp_uint for all 65536 values (complete)'),
    ('vp_kani_rlp::header_decode_bytes_conforms', 'Header::decode_bytes(buf, is_list): Ok <==> header kind matches; exact payload slice and advance; buffers <= 12 bytes'),
    ('vp_kani_rlp::u64_decode_conforms', '<u64 as Decodable>::decode == uint_ok(.,8) / be_val on every buffer of <= 11 bytes'),
    ('vp_kani_rlp::ipv4_decode_conforms', '<Ipv4Addr as Decodable>::decode == fixed_str_ok(.,4) and yields the payload, on every buffer of <= 8 bytes'),
    ('vp_kani_rlp::ipv6_decode_conforms', '<Ipv6Addr as Decodable>::decode == fixed_str_ok(.,16) and yields the payload, on every buffer of <= 20 bytes'),
    ('vp_kani_rlp::header_encode_conforms', 'Header::encode/length == spec hdr(list, n) for every list flag and every usize n (complete)'),
]
RLP_PROPS = ('C02', 'C04', 'C07', 'C13', 'C14')  # every property whose proof rests on the assumed alloy-rlp contracts


B64_HARNESSES = [
    ('vp_kani_b64::decode_conforms', 'URL_SAFE_NO_PAD decoding accepts exactly the strict unpadded URL-safe texts (alphabet only, no length 1 mod 4, unused trailing bits zero) and yields the reference bytes, on every byte string of <= 7 bytes'),
    ('vp_kani_b64::encode_conforms', 'URL_SAFE_NO_PAD encoding equals the reference encoder on every input of <= 5 bytes'),
]
B64_PROPS = ('C04', 'C12')


class _R:
    def __init__(self, rc, out):
        self.returncode, self.stdout = rc, out


def run_group(cmd, cwd, env, timeout):
    """subprocess.run with a timeout that also ends the grandchildren (cargo-kani leaves its cbmc running when only it is killed)"""
    import signal
    p = subprocess.Popen(cmd, cwd=cwd, env=env, stdout=subprocess.PIPE, stderr=subprocess.STDOUT, text=True, start_new_session=True)
    try:
        out, _ = p.communicate(timeout=timeout)
        return _R(p.returncode, out)
    except subprocess.TimeoutExpired:
        try:
            os.killpg(os.getpgid(p.pid), signal.SIGKILL)
        except Exception:
            p.kill()
        try:
            p.communicate(timeout=10)
        except Exception:
            pass
        raise


def run_b64_conformance(timeout=900):
    return run_rlp_conformance(timeout, harness_file='b64_conformance.rs', harnesses=B64_HARNESSES)


def run_rlp_conformance(timeout=900, harness_file='rlp_conformance.rs', harnesses=None):
    harnesses = harnesses or RLP_HARNESSES
    d = scratch_copy()
    out = []
    try:
        p = os.path.join(d, 'src', 'lib.rs')
        open(p, 'a').write(open(os.path.join(D.VERIF, 'kani', harness_file)).read())
        env = dict(os.environ)
        env['CARGO_NET_OFFLINE'] = 'true'
        env['CARGO_TARGET_DIR'] = os.path.join(d, 'target')
        for h, what in harnesses:
            cmd = ['cargo', 'kani', '--harness', h]
            t0 = time.time()
            try:
                r = run_group(cmd, cwd=d, env=env, timeout=timeout)
                txt = r.stdout
            except subprocess.TimeoutExpired:
                out.append({'harness': h, 'status': 'undecided', 'what': what, 'wall_s': time.time() - t0})
                continue
            ok = 'VERIFICATION:- SUCCESSFUL' in txt
            out.append({'harness': h, 'status': 'ok' if ok else ('fail' if 'VERIFICATION:- FAILED' in txt else 'undecided'), 'what': what,
                        'wall_s': round(time.time() - t0, 1), 'cmd': 'CARGO_NET_OFFLINE=true ' + ' '.join(cmd), 'bounded': True})
    finally:
        shutil.rmtree(d, ignore_errors=True)
    return out


def scratch_copy():
    d = tempfile.mkdtemp(prefix='vp_kani_')
    for f in ('Cargo.toml', 'Cargo.lock'):
        if os.path.exists(os.path.join(D.REPO, f)):   # Cargo.lock is not tracked by the repository; cargo recreates it offline
            shutil.copy(os.path.join(D.REPO, f), d)
    shutil.copytree(os.path.join(D.REPO, 'src'), os.path.join(d, 'src'))
    if os.path.isdir(os.path.join(D.REPO, 'tests')):
        shutil.copytree(os.path.join(D.REPO, 'tests'), os.path.join(d, 'tests'))
    for f in ('README.md',):
        if os.path.exists(os.path.join(D.REPO, f)):
            shutil.copy(os.path.join(D.REPO, f), d)
    return d


def inject(d):
    p = os.path.join(d, 'src', 'node_id.rs')
    s = open(p).read()
    m = re.search(r'^(\s*)pub fn parse\(raw_input: &\[u8\]\)', s, re.M)
    if not m:
        return 'LOST-ANCHOR NodeId::parse signature'
    s = s[:m.start()] + PARSE_CONTRACT + s[m.start():]
    s += open(os.path.join(D.VERIF, 'kani', 'node_id_harness.rs')).read()
    open(p, 'w').write(s)
    return None


def run(prop, timeout=600):
    """returns list of {harness, status: ok|fail|undecided, detail, wall_s, cmd, checks}"""
    out = []
    if prop not in HARNESSES:
        return out
    d = scratch_copy()
    try:
        err = inject(d)
        if err:
            return [{'harness': h, 'status': 'undecided', 'detail': err, 'wall_s': 0, 'cmd': '', 'what': w} for h, _, w in HARNESSES[prop]]
        env = dict(os.environ)
        env['CARGO_NET_OFFLINE'] = 'true'
        env['CARGO_TARGET_DIR'] = os.path.join(d, 'target')
        for h, flags, what in HARNESSES[prop]:
            cmd = ['cargo', 'kani'] + flags + ['--harness', h]
            t0 = time.time()
            try:
                r = run_group(cmd, cwd=d, env=env, timeout=timeout)
                txt = r.stdout
            except subprocess.TimeoutExpired:
                out.append({'harness': h, 'status': 'undecided', 'detail': 'timeout', 'wall_s': time.time() - t0, 'cmd': ' '.join(cmd), 'what': what})
                continue
            wall = time.time() - t0
            ok = 'VERIFICATION:- SUCCESSFUL' in txt
            failed = 'VERIFICATION:- FAILED' in txt
            m = re.search(r'\*\* (\d+) of (\d+) failed', txt)
            checks = int(m.group(2)) if m else None
            mc = re.search(r'\*\* (\d+) of (\d+) cover properties satisfied', txt)
            cover_ok = (mc is None) or (mc.group(1) == mc.group(2))
            fails = re.findall(r'Check \d+: ([^\n]*)\n\s*- Status: FAILURE\n\s*- Description: "([^"]*)"', txt)
            if ok and cover_ok:
                st = 'ok'
            elif failed:
                st = 'fail'
            else:
                st = 'undecided'
            cex = None
            if st == 'fail':
                # concrete playback: ask Kani for the failing input and keep its unit test text
                try:
                    r2 = run_group(cmd + ['-Z', 'concrete-playback', '--concrete-playback=print'], cwd=d, env=env, timeout=timeout)
                    m2 = re.search(r'(#\[test\].*?\n\}\n)', r2.stdout, re.S)
                    if m2:
                        cex = m2.group(1)
                except Exception:
                    pass
            out.append({'harness': h, 'counterexample': cex, 'status': st, 'detail': '; '.join('%s: %s' % f for f in fails[:5]) or txt[-600:] if st != 'ok' else '',
                        'wall_s': wall, 'cmd': 'CARGO_NET_OFFLINE=true ' + ' '.join(cmd), 'checks': checks, 'what': what})
    finally:
        shutil.rmtree(d, ignore_errors=True)
    return out
