"""`vp check <Cxx> [--tier quick|thorough]` : decide one property from the Verus verdicts, write evidence."""
import glob
import hashlib
import json
import os
import re
import sys
import time

import vpdriver as D
from vpanalyze import GenIndex, failures, fsig, LABEL_RE

PROPS = [json.loads(l) for l in open(os.path.join(D.VERIF, 'properties.jsonl'))]
PROP_IDS = [p['id'] for p in PROPS]
CACHE = os.path.join(D.BUILD, 'cache')
# campaigns on scratch copies of /repo (tools/run_seeded.py with VP_SEED_SCRATCH=1) write their evidence elsewhere, so that
# evidence/ only ever holds what a run against /repo itself wrote
EVID = os.environ.get('VP_EVIDENCE_DIR') or os.path.join(D.VERIF, 'evidence')
REPLAY = os.path.join(D.VERIF, 'replay_out')

# failures of these kinds inside a verified function body are panics / overflows / non-termination: property C03
C03_PANIC_MSGS = ('possible arithmetic underflow/overflow', 'decreases not satisfied', 'possible division by zero',
                  'index out of bounds', 'could not prove termination', 'unreachable', 'possible bit shift', 'may be out of range')
C03_MSGS = ('possible arithmetic underflow/overflow', 'precondition not satisfied', 'decreases not satisfied', 'possible division by zero',
            'index out of bounds', 'could not prove termination', 'unreachable')


def tree_hash(tier, seed):
    h = hashlib.sha256()
    paths = []
    for root in (os.path.join(D.REPO, 'src'),):
        for dp, dn, fn in os.walk(root):
            for f in sorted(fn):
                paths.append(os.path.join(dp, f))
    paths += [os.path.join(D.REPO, 'Cargo.toml'), os.path.join(D.REPO, 'Cargo.lock')]
    for d in ('prelude', 'spec', 'contracts', 'lib', 'kani'):
        paths += sorted(glob.glob(os.path.join(D.VERIF, d, '*')))
    paths.append(D.VPX)
    for p in sorted(paths):
        if os.path.isfile(p):
            h.update(p.encode())
            with open(p, 'rb') as f:
                h.update(f.read())
    h.update(('%s|%s' % (tier, seed)).encode())
    return h.hexdigest()[:20]


def scan_trusted():
    """mechanical list of every assumption left unchecked"""
    out = []
    for f in sorted(glob.glob(os.path.join(D.VERIF, 'prelude', '*.rs'))):
        rel = 'prelude/' + os.path.basename(f)
        txt = open(f).read()
        for m in re.finditer(r'assume_specification(?:<[^\[]*>)?\s*\[\s*([^\]]+?)\s*\]', txt):
            out.append('assumed contract of dependency fn %s (%s)' % (m.group(1).strip(), rel))
        for m in re.finditer(r'#\[verifier::external_body\]\s*(?:#\[[^\]]*\]\s*)*pub (?:broadcast )?proof fn (\w+)', txt):
            out.append('trusted axiom %s (%s)' % (m.group(1), rel))
        for m in re.finditer(r'#\[verifier::external_body\]\s*(?:#\[[^\]]*\]\s*)*(?:pub )?fn (\w+)', txt):
            out.append('assumed contract of stand-in/shim fn %s (%s)' % (m.group(1), rel))
        for m in re.finditer(r'#\[verifier::external_type_specification\]\s*(?:#\[[^\]]*\]\s*)*pub struct (\w+)', txt):
            out.append('external type %s (%s)' % (m.group(1), rel))
        for m in re.finditer(r'#\[verifier::external_body\]\s*(?:#\[[^\]]*\]\s*)*pub struct (\w+)', txt):
            out.append('opaque stand-in type %s (%s)' % (m.group(1), rel))
        for m in re.finditer(r'external_trait_specification\]\s*(?:#\[[^\]]*\]\s*)*pub trait (\w+)', txt):
            out.append('external trait specification %s (%s)' % (m.group(1), rel))
    cfg = json.load(open(os.path.join(D.VERIF, 'contracts', 'extract.json')))
    for b in cfg['drop_bodies']:
        out.append('UNVERIFIED body (assumed to meet its contract): %s' % b)
    for b in cfg.get('drop_items', []) + cfg.get('drop_fns', []):
        out.append('not extracted (outside the verified text): %s' % b)
    # assumptions must not hide in contracts/ or spec/
    bad = []
    for f in sorted(glob.glob(os.path.join(D.VERIF, 'contracts', '*.vpc')) + glob.glob(os.path.join(D.VERIF, 'spec', '*.rs'))):
        txt = open(f).read()
        for kw in ('assume(', 'admit(', 'external_body', 'assume_specification', 'axiom fn', 'exec_allows_no_decreases_clause'):
            for m in re.finditer(re.escape(kw), txt):
                line = txt[:m.start()].count('\n') + 1
                bad.append('%s:%d uses %s' % (os.path.relpath(f, D.VERIF), line, kw))
    return sorted(set(out)), bad


MUST_FAIL = '\n// vacuity probe: this obligation MUST fail (detects an inconsistent trusted base)\nproof fn vp_must_fail() { assert(false); }\n'


def contract_labels(key, fname=None):
    """labels written in the @fn / @items section `key` of the contract files"""
    labs = []
    nk = re.sub(r'\s+', '', key)
    for f in sorted(glob.glob(os.path.join(D.VERIF, 'contracts', '*.vpc'))):
        cur = False
        for line in open(f):
            t = line.strip()
            if t.startswith('@fn ') or t.startswith('@items '):
                cur = re.sub(r'\s+', '', t.split(' ', 1)[1]) == nk
            elif t.startswith('@end'):
                cur = False
            elif cur:
                labs += LABEL_RE.findall(t)
    return labs


# library functions the crate does not call today but whose contract in prelude/ is a complete functional specification
FULLY_SPECIFIED = {'length_of_length', 'trim_start_matches', 'strip_prefix', 'map_or', 'try_from', 'write_str', 'encode_string', 'eq_ignore_ascii_case'}
# std functions for which the installed vstd proves a functional characterisation (probed with tools/probes/: each name was
# called in a one-line function whose postcondition states the std documentation, and Verus discharged it)
FULLY_SPECIFIED |= {
    'map', 'and_then', 'ok_or_else', 'map_err', 'unwrap_or_else', 'unwrap_or', 'ok', 'err', 'ok_or', 'is_some', 'is_none', 'is_ok',
    'is_err', 'unwrap', 'expect', 'unwrap_or_default', 'take', 'checked_add', 'checked_sub', 'checked_mul', 'saturating_add',
    'saturating_sub', 'wrapping_add', 'wrapping_sub', 'len', 'push', 'pop', 'insert', 'remove', 'is_empty', 'clear', 'as_slice',
    'extend_from_slice', 'clone', 'with_capacity', 'new', 'swap', 'split_at', 'get', 'contains_key', 'to_string', 'to_owned',
    'as_str', 'copy_from_slice', 'from', 'Some', 'Ok', 'Err', 'None', 'cloned', 'first', 'last', 'as_ref', 'truncate',
    'or_else', 'or', 'to_canonical', 'to_ipv4_mapped', 'trim', 'trim_start', 'trim_end', 'vp_hex_u8',   # complete contracts in prelude/20_fns.rs
}


def string_slicing(f, g):
    """a failed index precondition at `x[a..b]` where `x` is declared `: String` in the lines above (same function)"""
    if 'precondition not satisfied' not in f.get('message', '') or not f.get('clause_ext') or not f.get('pline'):
        return False
    try:
        line = g.lines[f['pline'] - 1]
    except Exception:
        return False
    for m in re.finditer(r'(\w+)\s*\[[^\]\[]*\.\.[^\]\[]*\]', line):
        x = m.group(1)
        lo = max(0, f['pline'] - 120)
        for l in g.lines[lo:f['pline']]:
            if re.search(r'\b%s\s*:\s*&?\s*(?:mut\s+)?String\b' % re.escape(x), l):
                return True
    return False


def novelty(xlog):
    """function key -> why a failed proof inside it is no evidence against the code: the changed body calls a library function
    that no function of the unchanged tree calls (its assumed contract, if any, was never exercised by a proof and is usually
    too weak), or it holds a closure that has no contract (Verus cannot see through one)."""
    try:
        sb = json.load(open(os.path.join(D.VERIF, 'contracts', 'shape_baseline.json')))
    except Exception:
        return {}
    now = xlog.get('shapes', {})
    # every function of the dependency stand-ins carries its complete assumed contract (prelude/standin.rs)
    standin_fns = set(re.findall(r'\bfn (\w+)', open(os.path.join(D.VERIF, 'prelude', 'standin.rs')).read()))
    crate_names = set(k.split('::')[-1] for k in list(now) + list(sb))
    used_anywhere = set()
    for v in sb.values():
        used_anywhere.update(v.get('calls', []))
    new_fns = set(k.split('::')[-1] for k in now) - set(k.split('::')[-1] for k in sb)
    out = {}
    for k, sh in now.items():
        base = sb.get(k)
        why = []
        new_calls = sorted(set(sh.get('calls', [])) - used_anywhere - crate_names - FULLY_SPECIFIED - standin_fns)
        if new_calls:
            why.append('calls library functions the unchanged crate never calls: ' + ', '.join(new_calls))
        new_helpers = sorted(set(sh.get('calls', [])) & new_fns)
        if new_helpers:
            why.append('calls functions that do not exist on the unchanged tree and have no contract: ' + ', '.join(new_helpers))
        bare_now = sh.get('closures', 0) - sh.get('closure_contracts', 0)
        bare_base = (base.get('closures', 0) - base.get('closure_contracts', 0)) if base else 0
        if bare_now > bare_base:
            why.append('holds %d closure(s) without a contract (unchanged tree: %d)' % (bare_now, bare_base))
        if why:
            out[re.sub(r'\s+', '', k)] = '; '.join(why)
    return out


def contract_labels_of_config(config):
    """labels written in the contract files that belong to one extraction configuration (`@only-config <name>`)"""
    labs = []
    for f in sorted(glob.glob(os.path.join(D.VERIF, 'contracts', '*.vpc'))):
        txt = open(f).read()
        if re.search(r'^@only-config\s+%s\s*$' % re.escape(config), txt, re.M):
            labs += LABEL_RE.findall(txt)
    return labs


def load_hint_baseline():
    """contracts/hint_baseline.json, or {} when it is missing or was computed for other contracts (stale)"""
    try:
        hb = json.load(open(os.path.join(D.VERIF, 'contracts', 'hint_baseline.json')))
    except Exception:
        return {}
    from vpanalyze import inputs_hash
    if hb.get('_inputs_hash') != inputs_hash():
        return {}
    return hb


def run_all(tier, seed):
    """one shared Verus run per (tree, tier, seed); cached"""
    os.makedirs(CACHE, exist_ok=True)
    key = tree_hash(tier, seed)
    cdir = os.path.join(CACHE, key)
    rfile = os.path.join(cdir, 'result.json')
    if os.path.exists(rfile):
        r = json.load(open(rfile))
        r['cached'] = True
        return r, cdir
    os.makedirs(cdir, exist_ok=True)
    # keep the cache small: only the 40 most recent trees (disk space is limited; Kani result files are kept)
    try:
        ds = sorted((d for d in glob.glob(os.path.join(CACHE, '*')) if os.path.isdir(d) and d != cdir), key=os.path.getmtime, reverse=True)
        for d in ds[40:]:
            # never an entry a concurrent run may still be writing to or reading from
            if time.time() - os.path.getmtime(d) < 2 * 3600:
                continue
            import shutil
            shutil.rmtree(d, ignore_errors=True)
    except Exception:
        pass
    t0 = time.time()
    res = {'key': key, 'tier': tier, 'seed': seed, 'runs': [], 'cached': False, 'degraded': {}}
    base_cfg = json.load(open(os.path.join(D.VERIF, 'contracts', 'extract.json')))
    nohint, dropped = [], []
    skip = {}      # function key -> hint ids left out (their text no longer compiles, or a fuzzy placement did not help)
    norm = lambda k: re.sub(r'\s+', '', str(k))
    hb = load_hint_baseline()

    def one(path, extra, name):
        r = D.run_verus(path, ['--time-expanded'] + extra, timeout=3000)
        r['name'] = name
        return r

    # Fallback ladder (never turns a tool limit into an alarm).
    #  1. hints whose anchor statement is gone are left out (vpx first tries the statement that is clearly the closest);
    #  2. a hint that no longer compiles (it used a ghost variable of a hint that is gone) is left out as well;
    #  3. a fuzzy placement that does not make the whole function verify is replaced by leaving the hint out;
    #  4. if the resulting hint configuration has no entry in contracts/hint_baseline.json the function is verified with no hint;
    #  5. a function the tools still reject has its body dropped (its contract is then unverified -> UNDECIDED).
    # Failures inside a function that reached steps 1-4 are judged differentially against the SAME hint configuration on the
    # unchanged tree (hint_baseline.json); all other functions are decided as usual.
    hint_state = {}
    drop_modules, drop_uses = set(), set()   # fallback for an import that does not resolve (an item the stand-ins do not have)
    for attempt in range(12):
        cfg = dict(base_cfg)
        cfg['nohint_fns'] = nohint
        cfg['drop_bodies'] = list(base_cfg['drop_bodies']) + dropped
        cfg['skip_hints'] = dict((k, sorted(v)) for k, v in skip.items() if k not in nohint)
        cfg['drop_module_bodies'] = sorted(drop_modules)
        cfg['drop_use_names'] = sorted(drop_uses)
        cfgp = os.path.join(cdir, 'extract_attempt%d.json' % attempt)
        json.dump(cfg, open(cfgp, 'w'))
        path, xlog, err = D.gen(cdir, extract_cfg=cfgp)
        res['extract_log'] = xlog
        if err:
            res['status'] = 'undecided'
            res['reason'] = 'extraction: ' + str(err[2])[:2000]
            json.dump(res, open(rfile, 'w'))
            return res, cdir
        lost_map, fuzzy_map = {}, {}
        for l in xlog.get('lost', []):
            m = re.match(r'LOST-(?:ANCHOR|LOOP|CLOSURE) (\S+) (\S+)', l)
            if m:
                lost_map.setdefault(norm(m.group(1)), set()).add(m.group(2))
        absent_loop_anchors = {}
        lost_loops = {}
        for l in xlog.get('lost', []):
            m = re.match(r'LOST-LOOP (\S+) loop#(\d+)', l)
            if m:
                lost_loops.setdefault(norm(m.group(1)), set()).add(m.group(2))
        for l in xlog.get('lost', []):
            m = re.match(r'LOST-ANCHOR (\S+) (anchor#\d+) (loopstart|loopend) #(\d+)', l)
            if m and m.group(4) in lost_loops.get(norm(m.group(1)), set()):
                absent_loop_anchors.setdefault(norm(m.group(1)), set()).add(m.group(2))
        for l in xlog.get('fuzzy', []):
            m = re.match(r'FUZZY-ANCHOR (\S+) (\S+)', l)
            if m:
                fuzzy_map.setdefault(norm(m.group(1)), set()).add(m.group(2))
        # vacuity probe appended to the crate-root module (all trusted axioms in scope)
        txt = open(path).read()
        lit = '// ---- generated literal constants (N4)'
        j = txt.index(lit)
        txt = txt[:j] + MUST_FAIL + txt[j:]
        open(path, 'w').write(txt)
        r0 = one(path, [], 'z3 default')
        gi = GenIndex(path)
        fl0 = failures(gi, r0['diags'])
        tool = [f for f in fl0 if f['kind'] == 'tool']
        progressed = False
        if tool:
            # an unresolved import cannot be cured by dropping one function: the import is removed and every body of that
            # module is dropped (its contracts are then unverified -> UNDECIDED for the properties they carry)
            unresolved = [f for f in tool if f.get('code') in ('E0432', 'E0433') and f['module'].startswith('code::')]
            new_unres = False
            for f in unresolved:
                mod = f['module'][len('code::'):]
                names = set(n.rsplit('::', 1)[-1] for n in re.findall(r'`([A-Za-z0-9_:]+)`', f['message']))
                if names - drop_uses or mod not in drop_modules:
                    drop_uses.update(names)
                    drop_modules.add(mod)
                    new_unres = True
            if new_unres:
                for (ln, nm, key, src) in gi.fn_at:
                    if key and src and gi.module_of(ln)[len('code::'):] in drop_modules:
                        res['degraded'][key] = 'BODY NOT VERIFIED (an import of its module does not resolve: %s)' % ', '.join(sorted(drop_uses))
                continue
            fns = sorted(set(f['fn'] for f in tool if f['fn'] and f['module'].startswith('code') and f['src']))
            if not fns or attempt == 11:
                break
            for fn in fns:
                k = norm(fn)
                mine = [f for f in tool if f['fn'] == fn]
                hinted = set(f['hint'][1] for f in mine if f.get('hint') and norm(f['hint'][0]) == k) - skip.get(k, set())
                if hinted and k not in nohint and k not in dropped:
                    skip.setdefault(k, set()).update(hinted)
                    progressed = True
                elif k not in nohint and k not in dropped:
                    nohint.append(k)
                    res['degraded'][fn] = 'hints not injected (tool error: %s)' % mine[0]['message'][:100]
                    progressed = True
                elif k in nohint and k not in dropped:
                    dropped.append(k)
                    res['degraded'][fn] = 'BODY NOT VERIFIED (tool error: %s)' % mine[0]['message'][:100]
                    progressed = True
            if not progressed:
                break
            continue
        # no tool error: look at the functions whose hints are not all in place
        failing = set(norm(f['fn']) for f in fl0 if f['fn'] and f['fn'] != 'vp_must_fail')
        hint_state = {}
        for k in set(lost_map) | set(fuzzy_map) | set(skip) | set(nohint):
            if k in dropped:
                continue
            if k in nohint:
                hint_state[k] = {'config': 'ALL'}
                continue
            # a loop that no longer exists needs no invariant: its hints (the invariant and the hints anchored at its start/end)
            # are not "missing" from the proof, the facts they established are simply not established any more
            gone = set(h for h in lost_map.get(k, set()) if h.startswith('loop#')) | set(absent_loop_anchors.get(k, set()))
            left_out = (set(lost_map.get(k, set())) | set(skip.get(k, set()))) - gone
            fz = set(fuzzy_map.get(k, set()))
            if k in failing and fz:
                # a fuzzy placement only counts when it lets the whole function verify
                skip.setdefault(k, set()).update(fz)
                progressed = True
                continue
            config = '+'.join(sorted(left_out)) if left_out else 'FULL'
            hint_state[k] = {'config': config, 'fuzzy_placed': sorted(fz)}
            if k in failing and config != 'FULL':
                ent = hb.get(k, {}).get(config)
                if ent is None or ent.get('tool') or ent.get('rlimit'):
                    nohint.append(k)
                    progressed = True
        if not progressed or attempt == 11:
            break
    for k, st in hint_state.items():
        if st['config'] != 'FULL':
            res['degraded'].setdefault(k, 'verified in hint configuration "%s" (source restructured: some proof hints could not be placed)' % st['config'])
    res['hint_state'] = hint_state
    res['renamed_fns'] = sorted(set(re.match(r'RENAMED-LOCAL (\S+)', l).group(1) for l in res.get('extract_log', {}).get('renamed', []) if re.match(r'RENAMED-LOCAL (\S+)', l)))
    runs = [r0]
    # A function in which the solver ran out of resources is decided by a second run with six times the budget (the verdicts
    # of the default run inside such a function are not used: near the limit the solver also reports spurious failures).
    # The retry verifies each such function ALONE (`--verify-function`: a much smaller solver context) with six times the budget.
    res['retry'] = None
    rl_fns = sorted(set(f['fn'] for f in failures(gi, r0['diags']) if f['kind'] == 'rlimit' and f['fn'] and f['fn'] != 'vp_must_fail'))
    if rl_fns:
        merged = {'name': 'z3 rlimit x6, one function at a time (retry of functions that ran out of resources)', 'diags': [], 'json': {'verification-results': {}},
                  'wall_s': 0.0, 'cmd': '', 'per_function': {}}
        where = dict(((key or nm), (gi.module_of(ln), nm)) for (ln, nm, key, src) in gi.fn_at)
        for fk in rl_fns:
            if fk not in where:
                continue
            mod, nm = where[fk]
            rr = one(path, ['--rlimit', '60', '--verify-only-module', mod, '--verify-function', '*::' + nm], 'retry ' + fk)
            if any('could not find function' in (d.get('message') or '') for d in rr['diags']):
                # a free function is named without a path prefix
                rr = one(path, ['--rlimit', '60', '--verify-only-module', mod, '--verify-function', nm], 'retry ' + fk)
            if any('could not find function' in (d.get('message') or '') for d in rr['diags']):
                rr = one(path, ['--rlimit', '60', '--verify-only-module', mod], 'retry module of ' + fk)
            merged['diags'] += rr['diags']
            merged['wall_s'] += rr['wall_s']
            merged['cmd'] = rr['cmd']
            merged['per_function'][fk] = {'timeout': bool(rr.get('timeout')), 'ok': bool(rr.get('json'))}
            if rr.get('timeout') or not rr.get('json'):
                merged['json'] = None
        res['retry'] = merged
    if tier == 'thorough':
        runs.append(one(path, ['--rlimit', '40', '--smt-option', 'smt.random_seed=%d' % (int(seed) % 1000 + 1)], 'z3 rlimit x4, random_seed'))
        runs.append(one(path, ['--rlimit', '40', '--smt-option', 'smt.random_seed=%d' % (int(seed) % 1000 + 77)], 'z3 rlimit x4, second random_seed'))
    for r in runs:
        r.pop('stdout_tail', None)
    res['runs'] = runs
    res['gen_path'] = path
    # ---- second extraction configuration (contracts/extract_secp.json: all features): the rust-secp256k1 back-end, the
    # cross-back-end lemmas of C11 and the arm of check_spec_reserved_keys that this feature switches to libsecp256k1.
    # No fallback ladder here: a lost anchor or a tool error inside this unit leaves its obligations UNDECIDED.
    res['unit_secp'] = None
    cfg2 = os.path.join(D.VERIF, 'contracts', 'extract_secp.json')
    if os.path.exists(cfg2):
        d2 = os.path.join(cdir, 'secp')
        # the functions both configurations share get the hint configuration the ladder settled on
        c2 = json.load(open(cfg2))
        c2['nohint_fns'] = list(nohint)
        c2['drop_bodies'] = list(c2.get('drop_bodies', [])) + list(dropped)
        c2['skip_hints'] = dict((k, sorted(v)) for k, v in skip.items() if k not in nohint)
        c2['drop_module_bodies'] = sorted(drop_modules)
        c2['drop_use_names'] = sorted(drop_uses)
        cfg2 = os.path.join(cdir, 'extract_secp_final.json')
        json.dump(c2, open(cfg2, 'w'))
        path2, xlog2, err2 = D.gen(d2, extract_cfg=cfg2)
        u = {'gen_path': path2, 'err': (str(err2[2])[:600] if err2 else None), 'lost': [], 'diags': [], 'ok': False, 'wall_s': 0.0, 'cmd': ''}
        if not err2:
            u['shapes'] = dict((k, v) for k, v in xlog2.get('shapes', {}).items() if 'rust_secp256k1' in k or k.endswith('check_spec_reserved_keys'))
            u['lost'] = [l for l in (xlog2.get('lost', []) + xlog2.get('fuzzy', []) + xlog2.get('renamed', []))
                         if 'rust_secp256k1' in l or 'check_spec_reserved_keys' in l]
            ra = one(path2, ['--verify-only-module', 'code::keys::rust_secp256k1'], 'z3 default, all-features configuration: module keys::rust_secp256k1')
            rb = one(path2, ['--verify-only-module', 'code', '--verify-function', 'check_spec_reserved_keys'], 'z3 default, all-features configuration: check_spec_reserved_keys')
            u['diags'] = ra['diags'] + rb['diags']
            u['ok'] = bool(ra.get('json')) and bool(rb.get('json')) and not ra.get('timeout') and not rb.get('timeout')
            u['wall_s'] = ra['wall_s'] + rb['wall_s']
            u['cmd'] = ra['cmd']
            u['verified'] = ((ra.get('json') or {}).get('verification-results', {}).get('verified') or 0) + ((rb.get('json') or {}).get('verification-results', {}).get('verified') or 0)
        res['unit_secp'] = u
    res['wall_s'] = time.time() - t0
    res['status'] = 'done'
    json.dump(res, open(rfile, 'w'))
    return res, cdir


def fn_breakdown(js):
    out = {}
    smt = (js or {}).get('times-ms', {}).get('smt', {})
    for m in smt.get('smt-run-module-times', []):
        for f in m.get('function-breakdown', []):
            out[f.get('function')] = {'time_ms': f.get('time'), 'rlimit': f.get('rlimit'), 'success': f.get('success'), 'module': m.get('module')}
    return out


def props_of_labels(labs):
    return sorted(set(l.split('.')[0] for l in labs))


def load_findings():
    fn = os.path.join(D.VERIF, 'known_findings.txt')
    out = []
    if os.path.exists(fn):
        for l in open(fn):
            l = l.strip()
            m = re.match(r'finding:\s+property=(\S+)\s+obligation=(\S+)\s+(.*)', l)
            if m:
                out.append({'property': m.group(1), 'obligation': m.group(2), 'what': m.group(3)})
    return out


def check(prop, tier, seed):
    t0 = time.time()
    os.makedirs(EVID, exist_ok=True)
    os.makedirs(REPLAY, exist_ok=True)
    evfile = os.path.join(EVID, prop + '.json')
    res, cdir = run_all(tier, seed)
    trusted, bad = scan_trusted()

    def write_ev(ev):
        ev.setdefault('property_id', prop)
        ev.setdefault('tier', tier)
        ev.setdefault('seed', int(seed))
        ev.setdefault('level', 'proof')
        ev['wall_s'] = round(time.time() - t0 + (0 if res.get('cached') else 0), 2)
        json.dump(ev, open(evfile, 'w'), indent=1)

    def undecided(reason):
        write_ev({'coverage': {'obligations': 1, 'discharged': 0, 'checker_cmd': 'verus (see DESIGN.md)', 'trusted_base': trusted,
                               'explanation': 'UNDECIDED: ' + reason}, 'assumptions': [], 'violations': 0})
        print('UNDECIDED property=%s %s' % (prop, reason[:600]))
        sys.exit(2)

    if bad:
        undecided('assumption keyword outside prelude/: ' + '; '.join(bad[:5]))
    if res.get('status') != 'done':
        undecided(res.get('reason', 'no result'))
    gi = GenIndex(res['gen_path'])
    run0 = res['runs'][0]
    if run0.get('timeout'):
        undecided('verus timed out')
    js = run0.get('json')
    fl_all = failures(gi, run0['diags'])
    retry = res.get('retry')
    retried_fns = set()
    main_sigs = {}   # function -> failed obligations of the whole-crate run (for functions that were run again alone)
    if retry and not retry.get('timeout') and retry.get('json'):
        rl0 = set(f['fn'] for f in fl_all if f['kind'] == 'rlimit' and f['fn'] != 'vp_must_fail')
        fl_retry = failures(gi, retry['diags'])
        if not [f for f in fl_retry if f['kind'] == 'tool']:
            for f in fl_all:
                if f['fn'] in rl0 and f['kind'] == 'semantic':
                    main_sigs.setdefault(f['fn'], set()).add(fsig(f))
            fl_all = [f for f in fl_all if f['fn'] not in rl0] + [f for f in fl_retry if f['fn'] in rl0]
            retried_fns = rl0
    # ---- second unit (all-features configuration)
    SECP_TAG = ' [all-features configuration]'
    unit = res.get('unit_secp')
    unit_fn_labels = {}
    unit_c03 = []
    unit_undecided = None
    gi2 = None
    if unit:
        if unit.get('err') or not unit.get('ok'):
            unit_undecided = 'the all-features configuration could not be verified: %s' % (unit.get('err') or 'verus gave no result')
        else:
            gi2 = GenIndex(unit['gen_path'])
            in_unit = lambda ln, nm, key: gi2.module_of(ln) == 'code::keys::rust_secp256k1' or nm == 'check_spec_reserved_keys'
            names = set((key or nm) for (ln, nm, key, src) in gi2.fn_at if in_unit(ln, nm, key))
            for k, labs in gi2.fn_labels().items():
                if k in names:
                    unit_fn_labels[k + SECP_TAG] = labs
            unit_c03 = [(key + SECP_TAG) for (ln, nm, key, src) in gi2.fn_at if key and src and in_unit(ln, nm, key)]
            fl2 = failures(gi2, unit['diags'])
            if [f for f in fl2 if f['kind'] == 'tool']:
                unit_undecided = 'tool error in the all-features configuration: ' + '; '.join(f['message'][:120] for f in fl2 if f['kind'] == 'tool')[:400]
            elif unit.get('lost'):
                unit_undecided = 'contracts of the all-features configuration could not be placed: ' + '; '.join(unit['lost'])[:400]
            else:
                for f in fl2:
                    f = dict(f)
                    f['fn'] = str(f['fn']) + SECP_TAG
                    f['_gi'] = 2
                    fl_all.append(f)
    # tool-level errors (rustc / unsupported construct / VIR error): nothing was decided
    tool = [f for f in fl_all if f['kind'] == 'tool']
    if tool or js is None or js.get('verification-results', {}).get('encountered-vir-error'):
        undecided('tool error (not a verdict): ' + '; '.join('%s @%s' % (f['message'][:120], f['fn']) for f in tool[:4]) + (run0.get('stderr_tail') or '')[-400:])

    # ---- vacuity probe
    probe = [f for f in fl_all if f['fn'] == 'vp_must_fail']
    fl = [f for f in fl_all if f['fn'] != 'vp_must_fail']
    if not probe:
        undecided('vacuity probe vp_must_fail did not fail: trusted base may be inconsistent')

    # functions whose proof hints are not all in place (source restructured): failures inside them are judged against the same
    # hint configuration on the unchanged tree (contracts/hint_baseline.json); without a usable entry they are UNDECIDED
    hint_state = res.get('hint_state', {})
    renamed_fns = set(re.sub(r'\s+', '', k) for k in res.get('renamed_fns', []))
    novel = novelty(res.get('extract_log', {}))
    if res.get('unit_secp') and res['unit_secp'].get('shapes'):
        # the same guard for the functions of the all-features unit (a function that exists in both configurations is compared
        # with its main-configuration shape)
        for k, why in novelty({'shapes': res['unit_secp']['shapes']}).items():
            novel[re.sub(r'\s+', '', k + ' [all-features configuration]')] = why
    lost_fns = set(k for k, st in hint_state.items() if st['config'] != 'FULL')
    dropped_fns = set(re.sub(r'\s+', '', k) for k, v in res.get('degraded', {}).items() if v.startswith('BODY NOT VERIFIED'))
    hint_baseline = load_hint_baseline()
    bd = fn_breakdown(js)
    if retried_fns:
        bd2 = fn_breakdown(retry.get('json'))
        for n, d in bd2.items():
            if any(n.endswith('::' + str(fk).split('::')[-1]) for fk in retried_fns):
                bd[n] = d
    fn_labels = gi.fn_labels()
    fn_labels.update(unit_fn_labels)
    # labelled obligations of this property: (function key, label)
    obligations = []
    lib_names = set(nm for (ln, nm, key, src) in gi.fn_at if not key and not gi.module_of(ln).startswith('code'))
    code_keys = set(key for (ln, nm, key, src) in gi.fn_at if key)   # a free function of the crate may share its name with a stand-in method
    for fkey, labs in fn_labels.items():
        if fkey in lib_names and fkey not in code_keys:
            continue   # labels written on trait-level clauses in the prelude name obligations of the verified impls
        for lab in labs:
            if lab.split('.')[0] == prop:
                obligations.append((fkey, lab))
    if prop == 'C03':
        # totality: EVERY extracted function whose body is verified carries the implicit obligations
        # "no panic (expect/unwrap/index/slice preconditions), no arithmetic overflow, every loop terminates"
        cfg = json.load(open(os.path.join(D.VERIF, 'contracts', 'extract.json')))
        dropped = set(re.sub(r'\s+', '', b) for b in cfg['drop_bodies'])
        for (ln, nm, key, src) in gi.fn_at:
            if key and src and re.sub(r'\s+', '', key) not in dropped and not gi.module_of(ln).startswith('sp'):
                obligations.append((key, 'C03.%s.total' % key))
    if prop == 'C03':
        for k in unit_c03:
            obligations.append((k, 'C03.%s.total' % k))
    obligations = sorted(set(obligations))
    if unit_undecided and any(lab.split('.')[0] == prop for labs in (unit_fn_labels or {'': contract_labels_of_config('secp')}).values() for lab in labs):
        undecided(unit_undecided)
    if unit_undecided and not unit_fn_labels and prop in ('C03', 'C11'):
        undecided(unit_undecided)
    # a contract whose function is no longer found in the source (renamed / removed) decides nothing: lost anchor, never an alarm
    for l in res.get('extract_log', {}).get('lost', []):
        m = re.match(r'LOST-(FN|ITEMS) (.*?)(?: \(contract in (\S+)\))?$', l)
        if m:
            labs = contract_labels(m.group(2), m.group(3))
            if any(x.split('.')[0] == prop for x in labs) or (prop == 'C03' and m.group(1) == 'FN'):
                undecided('the contract of `%s` could not be attached: no such function in the current source (renamed or removed)' % m.group(2))
    if not obligations:
        undecided('no obligation labelled %s found in the generated text' % prop)

    # ---- attribute failures
    violations = []   # semantic failures that concern this property
    undecided_fns = []  # rlimit failures that concern this property
    prop_fns = set(f for f, _ in obligations)
    support_failed = []
    inherited = gi.fn_inherited_labels()
    for f in fl:
        labs = list(f['labels'])
        fkey = f['fn']
        in_lib = f['module'] in ('sp', 'lem', 'trusted', 'trusted_code', 'ghost_first') or f['module'].startswith('standin')
        if in_lib:
            support_failed.append(f)
            continue
        broken = False   # the proof of the function is broken at a point that names no property: nothing inside it is decided
        g = gi2 if f.get('_gi') == 2 else gi
        clause_fn = g.fn_of(f['clause_line']) if f.get('clause_line') else None
        clause_outside = (clause_fn is None) or ((clause_fn[2] or clause_fn[1]) + (SECP_TAG if f.get('_gi') == 2 else '') != fkey)
        if not labs and 'postcondition not satisfied' in f['message'] and clause_outside:
            # a trait-level clause the impl method is checked against
            labs = list(inherited.get(fkey, []))
            if labs:
                f = dict(f)
                f['labels'] = labs
        if labs:
            props = props_of_labels(labs)
        elif f['kind'] == 'semantic' and (any(m in f['message'] for m in C03_PANIC_MSGS)
                                          or ('precondition not satisfied' in f['message']
                                              and (f.get('clause_ext') or (clause_outside and not (clause_fn and g.module_of(f['clause_line']).startswith('code')))))):
            # overflow, division by zero, out-of-range index, non-termination, or the precondition of a LIBRARY function
            # (unwrap/expect/index/slice/advance/copy_from_slice: a panic): property C03 and nothing else
            props = ['C03']
            if string_slicing(f, g):
                # `&s[a..]` on a String: whether the offset is a char boundary needs UTF-8 reasoning that T14 supplies for
                # ASCII strings only -- the precondition cannot be decided either way, and what is known about the slice
                # afterwards is incomplete as well: the proof is broken here, nothing is reported
                broken = True
                props = props_of_labels(fn_labels.get(fkey, []))
                if 'C03' not in props:
                    props.append('C03')
        else:
            # failed assertion of a proof hint, loop invariant, or the precondition of another function of the crate: the proof
            # is broken here, which decides nothing (neither for C03 nor for the labelled clauses of this function)
            broken = True
            props = props_of_labels(fn_labels.get(fkey, []))
            if f['module'].startswith('code') and 'C03' not in props:
                props.append('C03')
        concerns = prop in props or (not props and fkey in prop_fns)
        if not concerns:
            # An assertion (of a proof hint) or a loop invariant that carries ANOTHER property failed inside a function that
            # also holds obligations of this property: Verus assumes a failed assertion for the rest of the body, so what it
            # proved afterwards was proved under a fact that does not hold -- those obligations are not decided.
            if fkey in prop_fns and f['kind'] == 'semantic' and ('assertion failed' in f['message'] or 'invariant not satisfied' in f['message']):
                f = dict(f)
                f['message'] = 'an assertion that carries another property (%s) failed inside %s; what follows it was proved under that assertion; ' % (', '.join(props), fkey) + f['message']
                undecided_fns.append(f)
            continue
        nk = re.sub(r'\s+', '', str(fkey))
        # An assertion inside a proof hint (or a loop invariant) is a statement about a program point.  When the statements
        # of the function moved (any hint lost, fuzzily placed, left out or rewritten for renamed locals), its failure says
        # nothing about the code: UNDECIDED.  Contract clauses (postconditions) are not affected by this rule.
        in_hint = bool(f.get('hint')) or 'assertion failed' in f['message'] or 'invariant not satisfied' in f['message']
        moved = (nk in hint_state and (hint_state[nk]['config'] != 'FULL' or hint_state[nk].get('fuzzy_placed'))) or nk in renamed_fns
        if in_hint and moved and nk not in novel:
            f = dict(f)
            f['message'] = 'the statements of %s moved (hint configuration "%s"); an assertion of a proof hint failed, which decides nothing; ' % (fkey, hint_state.get(nk, {}).get('config', 'renamed locals')) + f['message']
            undecided_fns.append(f)
            continue
        if nk in novel:
            f = dict(f)
            f['message'] = '%s %s: a failed proof inside it decides nothing; ' % (fkey, novel[nk]) + f['message']
            undecided_fns.append(f)
        elif nk in renamed_fns:
            # the hints were rewritten to follow renamed locals (a guess, however careful): a function that verifies is
            # verified, but a failure inside it is not evidence against the code
            f = dict(f)
            f['message'] = 'locals of %s were renamed and the proof hints rewritten accordingly; ' % fkey + f['message']
            undecided_fns.append(f)
        elif broken:
            f = dict(f)
            f['message'] = 'proof broken inside the function (%s: %s); ' % (f['message'][:40], (f.get('clause') or '')[:80])
            undecided_fns.append(f)
        elif f['kind'] == 'rlimit' or nk in lost_fns:
            if nk in lost_fns:
                config = hint_state[nk]['config']
                ent = hint_baseline.get(nk, {}).get(config)
                if f['kind'] == 'semantic' and ent and not ent.get('tool') and not ent.get('rlimit') and fsig(f) not in ent.get('failed', []):
                    f = dict(f)
                    f['message'] = f['message'] + ' [function restructured: hint configuration "%s"; this obligation is discharged in the same configuration on the unchanged tree]' % config
                    violations.append(f)
                    continue
                f = dict(f)
                f['message'] = 'proof hints could not be used in %s (source restructured, configuration "%s"); ' % (fkey, config) + f['message']
            undecided_fns.append(f)
        else:
            violations.append(f)
    # functions whose body had to be dropped: their obligations are not decided
    for (fk, lab) in obligations:
        if re.sub(r'\s+', '', fk) in dropped_fns:
            undecided_fns.append({'fn': fk, 'message': res['degraded'].get(fk, 'body not verified'), 'kind': 'tool'})
    if support_failed:
        undecided('a lemma/spec of the shared library failed: ' + '; '.join('%s: %s' % (f['fn'], f['message'][:80]) for f in support_failed[:4]))

    # thorough: extra runs only *inform* (unstable proofs are reported, they never turn into alarms on their own)
    unstable = []
    for r in res['runs'][1:]:
        if r.get('timeout') or not r.get('json'):
            continue
        for f in failures(gi, r['diags']):
            if f['fn'] != 'vp_must_fail' and f['fn'] in prop_fns and not any(v['fn'] == f['fn'] for v in violations):
                unstable.append('%s: %s under %s' % (f['fn'], f['message'][:60], r['name']))

    # conservative: when the solver ran out of resources inside a function, its other verdicts for that function are not
    # trusted either (an unstable proof must never become an alarm)
    rl_fns = set(f['fn'] for f in fl if f['kind'] == 'rlimit')
    # ... except an obligation that failed in BOTH runs (the whole crate with the normal budget, the function alone with six
    # times the budget): two independent queries agree, which a spurious failure near the limit does not do
    stable = lambda v: v['fn'] in retried_fns and fsig(v) in main_sigs.get(v['fn'], ())
    moved = [v for v in violations if v['fn'] in rl_fns and not v.get('kani') and not stable(v)]
    if moved:
        violations = [v for v in violations if not (v['fn'] in rl_fns and not v.get('kani') and not stable(v))]
        undecided_fns += moved
    # string slicing whose char-boundary precondition cannot be decided: what the function does afterwards rests on an
    # incomplete contract, so its other verdicts are not trusted either
    ss_fns = set(f['fn'] for f in fl if string_slicing(f, gi2 if f.get('_gi') == 2 else gi))
    moved = [v for v in violations if v['fn'] in ss_fns and not v.get('kani')]
    if moved:
        violations = [v for v in violations if not (v['fn'] in ss_fns and not v.get('kani'))]
        for v in moved:
            v = dict(v)
            v['message'] = 'slices a String at an offset whose char-boundary property is out of reach (T14 covers ASCII strings only); ' + v['message']
            undecided_fns.append(v)
    failed_fns = set(f['fn'] for f in violations) | set(f['fn'] for f in undecided_fns)
    discharged = [(fk, lab) for (fk, lab) in obligations if fk not in failed_fns]
    # supporting library functions (lemmas, spec-fn termination checks) verified in this run
    lib_ok = [n for n, d in bd.items() if d.get('success') and (d.get('module') in ('sp', 'lem'))]
    code_ok = [n for n, d in bd.items() if d.get('success') and str(d.get('module', '')).startswith('code')]
    smt_s = sum((d.get('time_ms') or 0) for d in bd.values()) / 1000.0

    # ---- Kani side pipeline (leaf functions only)
    import vpkani
    kani = []
    if prop in vpkani.HARNESSES:
        # the Kani harnesses only depend on src/node_id.rs: cache on that file (plus the harness text)
        hk = hashlib.sha256()
        for pth in [os.path.join(D.REPO, 'src', 'node_id.rs')] + sorted(glob.glob(os.path.join(D.VERIF, 'kani', '*'))) + [os.path.join(D.VERIF, 'lib', 'vpkani.py')]:
            hk.update(open(pth, 'rb').read())
        kf = os.path.join(CACHE, 'kani_%s_%s.json' % (prop, hk.hexdigest()[:16]))
        if os.path.exists(kf):
            kani = json.load(open(kf))
        elif violations:
            # Verus has already established a violation of this property on this tree: the (slow) harnesses add nothing
            kani = [{'harness': h, 'status': 'skipped', 'detail': 'not run: Verus reports a violation of this property on this tree', 'wall_s': 0, 'cmd': '', 'what': w, 'checks': None}
                    for h, _, w in vpkani.HARNESSES[prop]]
        else:
            kani = vpkani.run(prop)
            json.dump(kani, open(kf, 'w'))
        und = [k for k in kani if k['status'] == 'undecided']
        # a harness that did not finish decides nothing; a violation Verus has established stands on its own
        if und and not violations:
            undecided('Kani harness undecided: ' + '; '.join('%s: %s' % (k['harness'], k['detail'][-200:]) for k in und))
        for k in kani:
            if k['status'] == 'fail':
                violations.append({'kind': 'semantic', 'message': 'Kani FAILURE: ' + k['detail'][:300], 'fn': 'NodeId::parse' if 'parse' in k['harness'] else ('node_id::serde_hex_prfx::deserialize' if 'serde' in k['harness'] else k['harness']),
                                   'src': 'src/node_id.rs', 'module': 'code::node_id', 'line': None, 'clause_line': None, 'clause': k['what'],
                                   'labels': ['%s.kani.%s' % (prop, k['harness'].split('::')[-1])], 'rendered': k['detail'], 'ext': [], 'kani': k})

    # thorough tier: cross-check the ASSUMED alloy-rlp contracts this property rests on (bounded Kani harnesses; informative only,
    # but a refuted assumption makes the proof meaningless -> UNDECIDED)
    crosschecks = []
    if tier == 'thorough' and prop in vpkani.RLP_PROPS:
        hk = hashlib.sha256()
        for pth in [os.path.join(D.REPO, 'Cargo.lock'), os.path.join(D.VERIF, 'kani', 'rlp_conformance.rs'), os.path.join(D.VERIF, 'lib', 'vpkani.py')]:
            hk.update(open(pth, 'rb').read())
        kf = os.path.join(CACHE, 'kani_rlp_%s.json' % hk.hexdigest()[:16])
        if os.path.exists(kf):
            crosschecks = json.load(open(kf))
        else:
            crosschecks = vpkani.run_rlp_conformance()
            json.dump(crosschecks, open(kf, 'w'))
    if tier == 'thorough' and prop in vpkani.B64_PROPS:
        hk = hashlib.sha256()
        for pth in [os.path.join(D.REPO, 'Cargo.lock'), os.path.join(D.VERIF, 'kani', 'b64_conformance.rs'), os.path.join(D.VERIF, 'lib', 'vpkani.py')]:
            if os.path.exists(pth):
                hk.update(open(pth, 'rb').read())
        kf = os.path.join(CACHE, 'kani_b64_%s.json' % hk.hexdigest()[:16])
        if os.path.exists(kf):
            cc2 = json.load(open(kf))
        else:
            cc2 = vpkani.run_b64_conformance()
            json.dump(cc2, open(kf, 'w'))
        crosschecks = crosschecks + cc2
    if tier == 'thorough' and crosschecks:
        if any(c['status'] == 'fail' for c in crosschecks):
            undecided('an ASSUMED dependency contract (alloy-rlp / base64) was refuted by its Kani cross-check: ' + '; '.join(c['harness'] for c in crosschecks if c['status'] == 'fail'))

    findings = [k for k in load_findings() if k['property'] == prop]
    known_labels = set(k['obligation'] for k in findings)
    new_violations = []
    known_hit = []
    for v in violations:
        labs = v['labels'] or fn_labels.get(v['fn'], [])
        mine = [l for l in labs if l.split('.')[0] == prop] or (['C03.%s.total' % v['fn']] if prop == 'C03' else [])
        if mine and all(l in known_labels for l in mine):
            known_hit.append((v, mine))
        else:
            new_violations.append((v, mine))

    samples = []
    for (fk, lab) in obligations[:6]:
        occ = [x for x in gi.all_labels().get(lab, []) if x['fn'] == fk]
        line = occ[0]['line'] if occ else None
        clause = ''
        if line:
            j = line
            while j < len(gi.lines) and gi.lines[j].strip().startswith('//'):
                j += 1
            clause = gi.lines[j].strip()[:200] if j < len(gi.lines) else ''
        src = next((s for (ln, nm, key, s) in gi.fn_at if (key or nm) == fk), None)
        fnd = next((d for n, d in bd.items() if n.endswith('::' + fk.split('::')[-1])), {})
        samples.append({'obligation': lab, 'function': fk, 'source': src, 'clause': clause,
                        'verdict': 'discharged' if (fk, lab) in discharged else 'FAILED', 'solver_ms': fnd.get('time_ms'), 'rlimit_used': fnd.get('rlimit')})

    cov = {
        'obligations': len(obligations) + len(lib_ok) + 1 + len(kani),
        'discharged': len(discharged) + len(lib_ok) + 1 + len([k for k in kani if k['status'] == 'ok']),
        'checker_cmd': run0['cmd'],
        'trusted_base': trusted,
        'samples': samples,
        'labelled_obligations': ['%s @ %s' % (lab, fk) for fk, lab in obligations],
        'functions_under_contract': sorted(prop_fns),
        'supporting_lemmas_discharged': len(lib_ok),
        'exec_functions_verified_in_run': len(code_ok),
        'vacuity_probe': 'vp_must_fail failed as required',
        'backends': [{'name': r['name'], 'wall_s': round(r['wall_s'], 1), 'verified': (r.get('json') or {}).get('verification-results', {}).get('verified'),
                      'errors': (r.get('json') or {}).get('verification-results', {}).get('errors')} for r in res['runs'] + ([retry] if retry else [])] + ([{'name': 'all-features configuration (contracts/extract_secp.json): module keys::rust_secp256k1 + check_spec_reserved_keys', 'wall_s': round(unit.get('wall_s', 0), 1), 'verified': unit.get('verified'), 'errors': len([f for f in fl_all if f.get('_gi') == 2])}] if unit else []),
        'functions_decided_by_the_retry_run': sorted(retried_fns),
        'functions_verified_in_a_reduced_hint_configuration': dict((k, st['config']) for k, st in hint_state.items() if st['config'] != 'FULL'),
        'functions_whose_hints_follow_renamed_locals': sorted(renamed_fns),
        'functions_under_the_novelty_guard': novel,
        'hint_baseline': 'contracts/hint_baseline.json (%s)' % ('in date' if hint_baseline else 'missing or stale: every failure inside a restructured function is UNDECIDED'),
        'solver_time_s': round(smt_s, 2),
        'unstable_under_other_seeds': unstable,
        'normalisation_rules_applied': sum(len(x['rules']) for x in res['extract_log'].get('rules', [])),
        'dropped_from_extraction': res['extract_log'].get('dropped', []),
        'shared_run_cached': bool(res.get('cached')),
        'bounded': ['Kani harness %s: %s' % (k['harness'], k['what']) for k in kani if 'parse' in k['harness'] or 'serde' in k['harness']],
        'assumption_crosschecks': crosschecks,
        'kani': [{'harness': k['harness'], 'status': k['status'], 'checks': k.get('checks'), 'wall_s': round(k['wall_s'], 1), 'cmd': k['cmd'], 'what': k['what']} for k in kani],
        'explanation': 'Every clause labelled [%s.*] in /verif/contracts is injected into the text extracted from /repo/src on this run; '
                       'the property holds iff Verus discharges every such clause, every supporting lemma, and the vacuity probe fails.' % prop,
    }
    ev = {'coverage': cov, 'assumptions': trusted, 'violations': len(new_violations)}

    if undecided_fns and not new_violations:
        ev['coverage']['explanation'] += ' UNDECIDED: resource limit on ' + ', '.join(sorted(set(f['fn'] for f in undecided_fns)))
        write_ev(ev)
        print('UNDECIDED property=%s %s' % (prop, '; '.join(sorted(set('%s: %s' % (f['fn'], f['message'][:70]) for f in undecided_fns)))))
        sys.exit(2)

    for (v, mine) in known_hit:
        k = next(k for k in findings if k['obligation'] in mine)
        print('KNOWN-FINDING: property=%s %s (%s)' % (prop, k['what'], k['obligation']))

    if new_violations:
        write_ev(ev)
        for n, (v, mine) in enumerate(new_violations):
            lab = (mine[0] if mine else '%s.%s.body' % (prop, v['fn']))
            rp = os.path.join(REPLAY, '%s_%s_%d.json' % (prop, re.sub(r'[^A-Za-z0-9_.]', '_', lab), n))
            json.dump({'property': prop, 'failed_obligation': lab, 'all_labels': mine, 'function': v['fn'], 'source': v['src'],
                       'verifier_message': v['message'], 'clause': v['clause'], 'verifier_output': v['rendered'],
                       'checker_cmd': run0['cmd'], 'generated_file': res['gen_path'],
                       'failing_input': (v.get('kani') or {}).get('counterexample'),
                       'note': 'Kani counterexample attached' if (v.get('kani') or {}).get('counterexample') else 'no-failing-input-found: Verus gives no model; the named obligation was discharged on the unchanged tree and fails on this tree'},
                      open(rp, 'w'), indent=1)
            tail = '' if (v.get('kani') or {}).get('counterexample') else ' no-failing-input-found'
            print('VIOLATION property=%s replay=%s obligation=%s function=%s (%s)%s' % (prop, rp, lab, v['fn'], v['message'][:60], tail))
        sys.exit(1)

    write_ev(ev)
    print('OK property=%s obligations=%d discharged=%d (labelled %d, lemmas %d) wall=%.1fs%s' % (
        prop, cov['obligations'], cov['discharged'], len(obligations), len(lib_ok), time.time() - t0, ' [cached run]' if res.get('cached') else ''))
    sys.exit(0)


def check_main(argv):
    if argv[0] != 'check' or len(argv) < 2:
        print('usage: vp check <Cxx> [--tier quick|thorough]')
        sys.exit(64)
    prop = argv[1]
    tier = os.environ.get('VERIF_TIER', 'quick')
    if '--tier' in argv:
        tier = argv[argv.index('--tier') + 1]
    seed = os.environ.get('VERIF_SEED', '0')
    try:
        int(seed)
    except ValueError:
        seed = '0'
    if prop not in PROP_IDS:
        print('unknown property', prop)
        sys.exit(64)
    try:
        check(prop, tier, seed)
    except SystemExit:
        raise
    except BaseException as e:   # an internal error of the machinery is never an alarm
        import traceback
        traceback.print_exc()
        print('UNDECIDED property=%s internal error of the checker: %s: %s' % (prop, type(e).__name__, str(e)[:300]))
        sys.exit(2)
