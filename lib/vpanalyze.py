"""Map Verus diagnostics back to functions, contract clauses and property labels."""
import re

FN_RE = re.compile(r'^\s*(?:pub(?:\([a-z]+\))?\s+)?(?:open\s+|closed\s+|uninterp\s+|broadcast\s+)*(?:spec|proof|exec)?\s*(?:const\s+)?fn\s+([A-Za-z_0-9]+)')
VP_RE = re.compile(r'#\[doc = "@vp ([^ ]+):(\d+) ([^"]+)"\]')
LABEL_RE = re.compile(r'\[(C\d\d[^\]]*)\]')


class GenIndex:
    def __init__(self, path):
        self.lines = open(path).read().split('\n')
        self.fn_at = []  # (line_no (1-based), name, key, src)
        pending = None
        for i, l in enumerate(self.lines, 1):
            m = VP_RE.search(l)
            if m:
                pending = (m.group(3), '%s:%s' % (m.group(1), m.group(2)))
                continue
            m = FN_RE.match(l)
            if m:
                if pending:
                    self.fn_at.append((i, m.group(1), pending[0], pending[1]))
                    pending = None
                else:
                    self.fn_at.append((i, m.group(1), None, None))
        # module of each line
        self.mod_at = []
        stack = []
        depth = 0
        for i, l in enumerate(self.lines, 1):
            m = re.match(r'^\s*pub mod ([a-z_0-9A-Z]+) \{', l)
            if m:
                stack.append((m.group(1), depth))
            depth += l.count('{') - l.count('}')
            while stack and depth <= stack[-1][1]:
                stack.pop()
            self.mod_at.append('::'.join(s[0] for s in stack))

    HINT_RE = re.compile(r'/\*@vp-hint (\S+) (\S+?)\*/')

    def hint_at(self, line):
        """(function key, hint id) of the injected proof hint that contains `line`, or None"""
        j = line
        while j >= 1:
            t = self.lines[j - 1]
            if '/*@vp-hint-end*/' in t and j != line:
                return None
            m = self.HINT_RE.search(t)
            if m:
                return (m.group(1), m.group(2))
            if VP_RE.search(t):
                return None
            j -= 1
        return None

    def hints_of(self):
        """function key -> hint ids present in the generated text"""
        out = {}
        for l in self.lines:
            m = self.HINT_RE.search(l)
            if m:
                out.setdefault(m.group(1), []).append(m.group(2))
        return out

    def fn_of(self, line):
        best = None
        for (ln, name, key, src) in self.fn_at:
            if ln <= line:
                best = (ln, name, key, src)
            else:
                break
        return best

    def module_of(self, line):
        return self.mod_at[line - 1] if 0 < line <= len(self.mod_at) else ''

    def labels_near(self, line):
        """labels on the clause line itself or in the comment lines directly above it"""
        labs = []
        i = line
        labs += LABEL_RE.findall(self.lines[i - 1]) if 0 < i <= len(self.lines) else []
        j = line - 1
        while j >= 1:
            t = self.lines[j - 1].strip()
            if t.startswith('//'):
                labs += LABEL_RE.findall(t)
                j -= 1
            else:
                break
        return labs

    def all_labels(self):
        out = {}
        for i, l in enumerate(self.lines, 1):
            if l.strip().startswith('//'):
                for lab in LABEL_RE.findall(l):
                    f = self.fn_of(i)
                    out.setdefault(lab, []).append({'line': i, 'fn': (f[2] or f[1]) if f else None})
        return out

    def fn_inherited_labels(self):
        """function key -> labels on the contract comment lines that say `inherited` (they name the trait-level clause the impl
        method is checked against; a failure of that clause is reported at the trait, not inside the function)"""
        out = {}
        for idx, (ln, name, key, src) in enumerate(self.fn_at):
            end = self.fn_at[idx + 1][0] if idx + 1 < len(self.fn_at) else len(self.lines)
            labs = []
            for i in range(ln, end):
                l = self.lines[i - 1]
                if l.strip().startswith('//') and 'inherited' in l:
                    labs += LABEL_RE.findall(l)
            out[key or name] = sorted(set(labs))
        return out

    def fn_labels(self):
        """function key -> labels appearing in its contract (between its `fn` line and its body)"""
        out = {}
        for idx, (ln, name, key, src) in enumerate(self.fn_at):
            end = self.fn_at[idx + 1][0] if idx + 1 < len(self.fn_at) else len(self.lines)
            labs = []
            for i in range(ln, end):
                l = self.lines[i - 1]
                if l.strip().startswith('//'):
                    labs += LABEL_RE.findall(l)
            out[key or name] = sorted(set(labs))
        return out


SEMANTIC = ('postcondition not satisfied', 'precondition not satisfied', 'assertion failed', 'invariant not satisfied',
            'decreases not satisfied', 'possible arithmetic underflow/overflow', 'possible division by zero',
            'unreachable', 'recommendation not met', 'loop invariant', 'could not prove termination', 'index out of bounds',
            'failed this', 'possible bit shift', 'constructed value may fail to meet its declared type invariant',
            'cannot show', 'not satisfied', 'unable to prove', 'might not hold', 'may be out of range')
UNDECIDED = ('Resource limit (rlimit) exceeded', 'rlimit', 'timed out', 'canceled')


def classify(msg):
    m = msg.lower()
    for u in UNDECIDED:
        if u.lower() in m:
            return 'rlimit'
    for s in SEMANTIC:
        if s.lower() in m:
            return 'semantic'
    return 'tool'


def failures(gi, diags):
    out = []
    for d in diags:
        if d.get('level') != 'error':
            continue
        msg = d.get('message', '')
        if msg.startswith('aborting due to'):
            continue
        def at_call_site(sp):
            # a span inside a macro expansion (`write!`, `format!`, ...) is followed out to the call site in the generated file
            seen = 0
            while sp and not sp.get('file_name', '').endswith('enr_verus.rs') and sp.get('expansion') and seen < 8:
                sp = (sp.get('expansion') or {}).get('span')
                seen += 1
            return sp
        all_spans = []
        for s0 in d.get('spans', []):
            s1 = at_call_site(s0)
            if s1 and s1 is not s0 and s1.get('file_name', '').endswith('enr_verus.rs'):
                s1 = dict(s1)
                s1['is_primary'] = s0.get('is_primary')
                s1['label'] = s0.get('label')
                all_spans.append(s1)
            else:
                all_spans.append(s0)
        spans = [s for s in all_spans if s.get('file_name', '').endswith('enr_verus.rs')]
        ext_spans = [s for s in all_spans if not s.get('file_name', '').endswith('enr_verus.rs')]
        fn = None
        clause_line = None
        body_line = None
        for s in spans:
            lab = (s.get('label') or '')
            if 'at the end of the function body' in lab or 'at this exit' in lab:
                body_line = s['line_start']
            if 'failed this postcondition' in lab or 'failed precondition' in lab or s.get('is_primary'):
                if clause_line is None or 'failed' in lab:
                    clause_line = s['line_start']
        prim = [s for s in spans if s.get('is_primary')]
        where = body_line or (prim[0]['line_start'] if prim else None)
        if 'precondition not satisfied' in msg and prim:
            where = prim[0]['line_start']
        f = gi.fn_of(where) if where else None
        labs = gi.labels_near(clause_line) if clause_line else []
        if not labs and 'postcondition not satisfied' in msg and f:
            # a trait-level clause an impl method is checked against: named by the `inherited` labels of the method's contract
            cf = gi.fn_of(clause_line) if clause_line else None
            if cf is None or (cf[2] or cf[1]) != (f[2] or f[1]):
                if not hasattr(gi, '_inh'):
                    gi._inh = gi.fn_inherited_labels()
                labs = list(gi._inh.get(f[2] or f[1], []))
        text = gi.lines[clause_line - 1].strip() if clause_line and clause_line <= len(gi.lines) else ''
        pline = prim[0]['line_start'] if prim else where
        # a diagnostic that carries a rustc error code (E0277 "trait bound ... is not satisfied", E0425, ...) is a compile
        # error, whatever its wording
        rustc_code = ((d.get('code') or {}).get('code') or '')
        kind = 'tool' if re.match(r'^E\d{4}$', rustc_code) else classify(msg)
        out.append({'kind': kind, 'message': msg, 'code': rustc_code, 'fn': (f[2] or f[1]) if f else None, 'src': f[3] if f else None,
                    'hint': gi.hint_at(pline) if pline else None, 'pline': pline,
                    # the failed `requires` clause lies in another file (vstd): the precondition of a std function
                    'clause_ext': any(('failed precondition' in (s2.get('label') or '')) for s2 in ext_spans),
                    'module': gi.module_of(where) if where else '', 'line': where, 'clause_line': clause_line, 'clause': text, 'labels': labs,
                    'rendered': d.get('rendered', ''), 'ext': ['%s:%s' % (s.get('file_name'), s.get('line_start')) for s in ext_spans]})
    return out


def fsig(f):
    """line-number independent name of a failed obligation: its labels, or (for an unlabelled one) message kind + clause text"""
    if f.get('labels'):
        return 'L:' + ','.join(sorted(f['labels']))
    return 'U:' + f['message'][:40] + '|' + re.sub(r'\s+', '', f.get('clause') or '')[:160]


def inputs_hash():
    """hash of everything hint_baseline.json depends on besides /repo: contracts, prelude, spec, the extractor"""
    import glob, hashlib, os
    verif = os.path.normpath(os.path.join(os.path.dirname(os.path.abspath(__file__)), '..'))
    h = hashlib.sha256()
    paths = sorted(glob.glob(os.path.join(verif, 'contracts', '*.vpc'))) + [os.path.join(verif, 'contracts', 'extract.json')]
    paths += sorted(glob.glob(os.path.join(verif, 'prelude', '*.rs'))) + sorted(glob.glob(os.path.join(verif, 'spec', '*.rs')))
    paths += [os.path.join(verif, 'tools', 'vpx', 'src', 'main.rs')]
    for p in paths:
        h.update(os.path.basename(p).encode())
        h.update(open(p, 'rb').read())
    return h.hexdigest()[:24]
