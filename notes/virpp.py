#!/usr/bin/env python3
"""Condense a Verus `--log vir` function entry into readable pseudo-code.
usage: virpp.py crate.vir <substring of function path> [max_chars]
(design-phase helper for reading vstd specs that ship without source)"""
import sys, re
def tokenize(s):
    return re.findall(r'\(|\)|"[^"]*"|[^\s()]+', s)
def parse(tokens, i=0):
    out=[]
    while i < len(tokens):
        t=tokens[i]
        if t=='(':
            sub,i=parse(tokens,i+1); out.append(sub)
        elif t==')':
            return out,i+1
        else:
            out.append(t); i+=1
    return out,i
def find(node, key):
    if isinstance(node,list):
        for k,x in enumerate(node):
            if x==key and k+1<len(node): return node[k+1]
    return None
def path_of(fun):
    # (Fun :path a::b::c)
    if isinstance(fun,list) and fun and fun[0]=='Fun':
        p=find(fun,':path'); return p.split('::')[-2]+'::'+p.split('::')[-1] if p and '::' in p else p
    return '?'
def show(n):
    if not isinstance(n,list): return n
    if not n: return '()'
    if n[0]=='>' : return show(n[1:])
    h=n[0]
    if h=='Call':
        tgt=find(n,':target'); args=find(n,':args') or []
        name='?'
        if isinstance(tgt,list):
            for x in tgt:
                if isinstance(x,list) and x and x[0]=='Fun': name=path_of(x)
            # DynamicResolved: prefer trait fn (last Fun)
        return f"{name}({', '.join(show(a) for a in args)})"
    if h=='Logical':
        op=n[1][1]; sym={'Implies':'==>','And':'&&','Or':'||'}.get(op,op)
        return f"({show(n[2])} {sym} {show(n[3])})"
    if h=='Binary':
        op=n[1]; o=op[1] if isinstance(op,list) else op
        if isinstance(op,list) and op[0]=='BinaryOp': o=' '.join(str(x) for x in op[1:])
        return f"({show(n[2])} <{o}> {show(n[3])})"
    if h=='Unary': return f"{n[1]}({show(n[2])})"
    if h=='Block': return show(n[2]) if len(n)>2 else '{}'
    if h=='ReadPlace': return show(n[1])
    if h=='Place':
        if n[1]=='Local': return n[2][1].strip('"') if isinstance(n[2],list) else str(n[2])
        if n[1]=='Temporary': return show(n[2])
        if n[1]=='Field':
            f=find(n[2],':field'); return f"{show(n[3])}.{f.strip(chr(34))}"
        return ' '.join(show(x) for x in n[1:])
    if h=='Quant':
        vs=n[2]; return f"{n[1][0]} {[v[1] if isinstance(v,list) else v for v in vs]}. {show(n[3])}"
    if h=='WithTriggers': return show(n[-1])
    if h=='Var': return n[1][1].strip('"') if isinstance(n[1],list) else n[1]
    if h=='VarIdent': return n[1].strip('"')
    if h=='Const': return ' '.join(str(x) for x in n[1:]) if not isinstance(n[1],list) else ' '.join(show(x) for x in n[1])
    if h=='Ctor': return f"{n[2]}{[show(x) for x in n[3]] if len(n)>3 else ''}"
    if h=='Match': return 'match '+show(n[1])+' {'+'; '.join(show(a) for a in n[2])+'}'
    if h=='UnaryOpr': return f"{show(n[1])}[{show(n[2])}]"
    return '('+' '.join(show(x) for x in n)+')'
def main():
    s=open(sys.argv[1]).read(); key=sys.argv[2]; mx=int(sys.argv[3]) if len(sys.argv)>3 else 4000
    for m in re.finditer(r'\n\(Function\n', s):
        j=s.find('\n(Function\n', m.end()); blk=s[m.start():j if j>0 else len(s)]
        head=blk[:400]
        if key not in head: continue
        tree,_=parse(tokenize(blk)); fn=tree[0]
        name=fn[1]
        print('==', find(name,':path') if isinstance(name,list) else name)
        for sec in (':require',':ensure'):
            v=find(fn,sec)
            if isinstance(v,list):
                for c in v:
                    t=show(c); print(' ',sec, t[:mx])
main()
