#!/usr/bin/env python3
"""Writes /verif/MANIFEST.json (run by hand; output committed)."""
import json, os
V = os.path.normpath(os.path.join(os.path.dirname(os.path.abspath(__file__)), '..'))
props = [json.loads(l) for l in open(os.path.join(V, 'properties.jsonl'))]

COMMON_NOTE = ("Trusted base (listed item by item in evidence/<id>.json: coverage.trusted_base): assumed contracts of alloy-rlp "
               "(Header::decode/decode_bytes/encode/length, encode, the Decodable/Encodable impls of u16/u64/Bytes/Ipv4Addr/Ipv6Addr/Vec), bytes, "
               "std (BTreeMap through vstd's specifications + axioms T1-T12 of prelude/trusted.rs: byte-slice/Vec/String equality and ordering, "
               "borrowed-key lookups, UTF-8 of \"v4\"/\"enr:\", 47-bit buffer lengths, `?` uses From::from), derived PartialEq of NodeId; "
               "stand-ins with assumed contracts for k256, ed25519-dalek, base64, sha3 (keccak as a total function), zeroize; a 64-bit target. "
               "UNVERIFIED and assumed to meet the key-trait contract: sign_v4/verify_v4/public/encode/encode_uncompressed of the k256 and "
               "ed25519 back-ends; rust_secp256k1.rs (FFI) is not extracted. Machine integers are NOT treated as mathematical (Verus checks "
               "every arithmetic operation for overflow). Termination inside dependencies is assumed.")

SPECIFIC = {
 'C01': ("Proved for all inputs: decode returns Ok only with sig_ok() -- id is v4 and the stand-in verify predicate of the public key carried in the record holds over content_rlp(seq, pairs) of exactly the fields the record reports (getter contracts r == field); verify() == sig_ok(); rlp_content()/Builder::rlp_content() == content_rlp (signature excluded, pairs in sorted order, values verbatim); CombinedPublicKey::verify_v4 and every enr_to_public dispatch/lookup.",
         "The back-ends' verify_v4/sign_v4 glue IS verified: k256 verify_v4 == (the 64 bytes parse as r||s, low-S, and the library's verify_digest accepts keccak256(msg)); ed25519 verify_v4 == (64-byte signature accepted by the library's verify over the raw message). The library primitives themselves (ECDSA/EdDSA verification, keccak256) are assumed contracts, hence 'every tampering is rejected' is a cryptographic consequence outside any contract."),
 'C02': ("Proved, both directions, no bound: for every buffer, decode is Ok iff the buffer starts with a complete RLP item and that item satisfies accepts::<K> = parse_record_struct (oracle written from the property text: list, <= 300 bytes, signature string, canonical seq < 2^64, strictly increasing string keys, a value after every key, typed id/ip/ip6/ports) AND id = v4 AND K's public-key entry is a valid key AND the signature verifies; every other input returns Err (no panic). Loop invariant relates the real pair loop to the accumulator-style oracle parse_pairs.",
         "Key validity and signature validity are the abstract predicates of K (back-ends unverified). The assumed contracts of alloy-rlp's Header::decode / typed decoders are what 'canonically framed' rests on."),
 'C03': ("Proved: every extracted function with a verified body (all of lib.rs, builder.rs, node_id.rs, error.rs, keys/mod.rs, keys/combined.rs, enr_to_public/decode_public/enr_key of the back-ends) is free of panics (expect/unwrap/index/slice/copy_from_slice preconditions), of arithmetic overflow and terminates, under valid() for &self/&mut self methods (valid() is the invariant proved under C05) and with no precondition for decode, from_str, NodeId::parse, builder calls and mutator arguments; remove_insert needs the caller's iterators to obey the iterator laws.",
         "Also covered: Display for Enr, Hash for Enr, Display/Debug for NodeId, and the k256/ed25519 back-end bodies except k256 encode_uncompressed. NOT covered: Debug for Enr, serde (de)serialisers, EnrIntoIter/iter(), k256 encode_uncompressed (contains unwraps on library results), NodeId::random, CombinedKey::generate_*, allocation failure."),
 'C04': ("Proved: decode Ok(e) ==> record_rlp(e) == the consumed item (canonical uniqueness lemma, spec/52) and e's fields == independent oracle parse; encode appends exactly record_rlp (trait-level ensures), size() is its length; valid(e) ==> the oracle accepts record_rlp(e) and reports e's fields (round-trip theorem, spec/51); builder and every update establish valid(); to_base64/from_str are inverse up to the assumed base64 engine.",
         "JSON leg: Serialize for Enr hands the serializer exactly the text form as ONE string and Deserialize for Enr accepts a document iff it is one string that from_str accepts (verified against a reduced serde stand-in: a serializer that is handed one string, a deserializer that holds one string or not). base64 canonical strictness is the engine's assumed contract; serde_json's own string escaping/parsing is outside."),
 'C05': ("Proved by induction over all histories (representation invariant): valid() = all values exactly one well-typed RLP item, id v4, signature verifies under the carried key, node id = keccak(uncompressed key), record_rlp <= 300 bytes -- established by Builder::build, Enr::empty, decode, clone and preserved by all 22 public mutators incl. remove_insert; re-keying clauses (pk() == signer's key) for every mutator; with the round-trip theorem valid() implies the decoder accepts the record again. Holds for every K meeting the key-trait contract, including variable-length signature schemes.",
         "Precondition 'spec_compatible' formalises 'another key of the same signature scheme' (for CombinedKey: an ed25519 key cannot re-key content that holds a valid secp256k1 entry). Trait laws L1/L2/L4 are PROVED for CombinedKey from its components and for the k256/ed25519 back-ends from the assumed contracts of the library primitives (sign-then-verify, key round trip)."),
 'C06': ("Proved: r is Err ==> same_as(old) (seq, node id, pairs, signature) on all 22 mutators, for every error cause; sign_v4 may return Err at any call (signing faults are part of the trait contract), checked_add may overflow.",
         "same_as compares the abstract content map, not the BTreeMap's internal shape."),
 'C07': ("Proved: Ok ==> seq' == seq + 1 as mathematical integers (no wrap) for all mutators, however many fields they touch; seq == 2^64-1 ==> Err; set_seq sets exactly the requested value; builder keeps its seq; decode reports be_val of the canonical integer (round trip for all 64-bit values by the round-trip theorem).",
         "alloy-rlp's u64 codec is an assumed contract."),
 'C08': ("Proved: whole-map effect (final.cm() == explicit Map expression over old.cm() and the arguments) for all mutators and every builder method, returned previous values, set_public_key with the signer's own key is never refused by the value check, and for every error kind an admissible cause (err_cause_update / per-function match).",
         "For remove_insert both returned vectors are specified element by element (the previous value of each key at the moment it was touched)."),
 'C09': ("Proved: size() == |record_rlp|; valid() bounds every handed-out record by 300 bytes; with 64-byte signatures each mutator refuses for size iff rec_size(64, seq+1, new pairs) > 300 (length lemmas handle the 127/128, 255/256 sequence-number growth symbolically); builder: > 300 ==> Err and Err(ExceedsMaxSize) ==> size + 8 > 300; decoder gate on the item.",
         "rec_size is the encoding length with a 64-byte signature; schemes with other signature lengths get the upper bound and size() only."),
 'C10': ("Proved: NodeId::from(pk).raw == keccak(pk.spec_encode_uncompressed()); valid() includes node_id_ok; every mutator/builder/decode establishes it for the signer's / carried key; hence unchanged under same-key updates and a function of the key alone.",
         "keccak256 is an uninterpreted total function (sha3 stand-in); ed25519 encode_uncompressed is verified (the 32 key bytes), k256 encode_uncompressed (64-byte x||y via SEC1 decompression) is an assumed contract."),
 'C11': ("Proved: (a) the k256 and the rust-secp256k1 back-end accept exactly the same records (lemma_backends_accept_the_same: accepts::<k256 SigningKey>(item) == accepts::<secp256k1 SecretKey>(item)) and report the same public-key bytes and node-id input (lemma_backends_same_key); both back-end files are extracted and their glue (lookup of exactly the scheme's own key name, RLP string decoding, decode_public restricted to the two SEC1 encodings all libraries share, digest + signature parsing + verification, serialisation) is verified against the assumed contracts of the two libraries; rust_secp256k1.rs and the cfg arm of check_spec_reserved_keys it switches are verified in a second extraction configuration (all features). (b) CombinedKey::enr_to_public precedence (secp256k1 entry wins whenever it is a valid key, else ed25519), variant-wise dispatch of sign_v4/public/verify_v4/encode/encode_uncompressed/enr_key, L1/L2/L4 for CombinedKey from its components; each single-scheme enr_to_public reads exactly its own key name and fails when absent; decode::<K> depends on K only through spec_enr_to_public/spec_verify_v4.",
         "ASSUMED (named X1, X1', X2 in prelude/standin.rs): on the standard SEC1 encodings k256 and libsecp256k1 accept the same points with the same serialisations, and 'parses as a compact signature and verifies over keccak256(msg)' is the same predicate in both libraries (low-S included). The libraries themselves (FFI / curve arithmetic) are outside every contract. A genuine defect of this property (different public-key encodings accepted, D11) was found while writing these contracts and is fixed in /repo."),
 'C12': ("Proved: to_base64 == 'enr:' + URL_SAFE_NO_PAD text of record_rlp; from_str Ok(e) ==> the string is the text (with or without prefix) of some x that is EXACTLY one acceptable record and e reports x's fields; both spellings of an acceptable record's text are accepted. Engine constants have distinct ghost identities.",
         "Display for Enr writes exactly that text (verified). Padding/alphabet/trailing-bit strictness is the assumed contract of the base64 engine (accepts exactly canonical texts); the JSON string is covered for Enr through the reduced serde stand-in (one string token in, one string token out); serde_json itself is outside."),
 'C13': ("Proved: decode's outcome and record are functions of the first item only (dec_ok/dec_post mention only item_raw(buf, hdr)); on Ok the buffer is advanced by exactly item_total.",
         "Lists/streams of records follow from this contract plus alloy-rlp's assumed Vec<T> decoder."),
 'C14': ("Proved: each typed getter (ip4, ip6, tcp4, tcp6, udp4, udp6, id, get_raw_rlp, get_decodable, get) is a stated function of the raw stored value; setters/builder methods store rlp_uint(port)/rlp_str(octets) which read back (lemma_port_stored, lemma_ip*_stored); sockets/reachability are exactly the combination of the same family's ip and port accessors.",
         "client_info reports a value exactly when the raw value is an RLP list of two or three strings and then exactly those strings (lossy UTF-8), and what set_client_info / Builder::client_info store reads back as the strings given (lemma_client_reads_back); this rests on the ASSUMED contract T15 of alloy-rlp's Vec<Bytes> decoder (list of string items; a Kani cross-check of it did not run to completion) and T16 (lossy decoding of valid UTF-8 is the identity). u16 codec of alloy-rlp assumed."),
 'C15': ("Proved: == is exactly equality of (seq, node id, signature) -- an equivalence relation by construction; clone is observationally identical; compare_content == (content_rlp(a) == content_rlp(b)); content_rlp is injective on valid content (lemma_content_rlp_injective); re-encode/decode image equal via C04: every record a mutator or the builder hands out is valid (clauses [C15.*.image]: node id = hash of the stored key, values well typed, size within the limit), which is exactly when decode(encode(r)) == r.",
         "Hash for Enr feeds the hasher exactly (seq, node id, signature), the triple == compares, so equal records hash equally for every Hasher (ghost trace hasher_fed/hash_tok; that Vec<u8>, u64 and NodeId feed a function of their value is assumed). 'equal records carry identical pairs' needs signature unforgeability."),
 'C16': ("Proved (Verus, unbounded): parse Ok <==> len == 32 and Ok(id).raw == input; new/raw/From/AsRef/PartialEq identities. Kani function contract on the real NodeId::parse (slices <= 64 bytes, bounded) and a full-domain identity harness over all 32-byte values.",
         "Debug writes 0x + 64 lower-case hex digits and Display 0x + first two bytes + '..' + last two bytes (verified against the hex crate's assumed contract hex_chars). The helper serde_hex_prfx::deserialize that NodeId's derived Deserialize calls is PROVED by Verus for every string and every FromHex target: accepted exactly when, after ONE optional leading 0x, the target's from_hex accepts the text, with that value (hex::FromHex for [u8; 32] assumed: exactly 64 hex digits of either case). The whole deserialiser of NodeId (derive + helper, i.e. compiler-generated code included) is additionally checked by a BOUNDED Kani harness: for every ASCII string of at most 70 bytes it is Ok exactly for 64 hex digits with or without one 0x prefix and yields those bytes. NOT covered: the serde serialiser of NodeId (format! + hex::encode did not terminate in CBMC within 20 minutes), non-ASCII input strings."),
 'C17': ("REDUCED CLAIM (glue only). Proved: secp256k1_from_bytes / ed25519_from_bytes succeed exactly when the library accepts the bytes, zero the buffer on success, leave it untouched on failure, store the same secret in the right variant; encode returns the variant's secret; public/sign dispatch.",
         "ASSUMED (stand-ins): which scalars the libraries accept ([1, n-1] / 32 bytes), public-key derivation, to_bytes(from_slice(b)) == b, signatures verify (L1)."),
}

checks = []
for p in props:
    pid = p['id']
    text, note = SPECIFIC[pid]
    checks.append({
        'property_id': pid,
        'quick_cmd': 'bin/vp check %s --tier quick' % pid,
        'thorough_cmd': 'bin/vp check %s --tier thorough' % pid,
        'evidence_file': 'evidence/%s.json' % pid,
        'replay_cmd_template': 'bin/vp replay {path}',
        'engine': 'verus' + ('+kani' if pid == 'C16' else ''),
        'level_claimed': {'category': 'proof', 'text': text, 'design_ref': 'DESIGN.md section 6 (%s) and section 11' % pid},
        'level_note': note + ' ' + COMMON_NOTE,
        'technique': 'contract-based deductive verification: Verus requires/ensures/invariants injected into the real functions extracted mechanically from /repo/src on every run' + ('; Kani function contract + full-domain harness on NodeId' if pid == 'C16' else ''),
    })
m = {
    'version': 1,
    'setup_cmd': 'bin/vp setup',
    'hooks': {'guard': 'none', 'enable': 'no hook in /repo: contracts are injected into text extracted from the working tree on every run (Kani attributes are injected into a scratch copy under cfg(kani))',
              'baseline_off_cmd': 'cd /repo && cargo test --workspace --no-fail-fast --offline', 'source_commits': [], 'add_only': True},
    'engines': [
        {'name': 'verus', 'path': 'bin/vp', 'serves_properties': [p['id'] for p in props], 'kind_free_text': 'Verus 0.2026.09.13 (Z3) on prelude + spec library + real code with injected contracts (tools/vpx extractor)'},
        {'name': 'kani', 'path': 'lib/vpkani.py', 'serves_properties': ['C16'], 'kind_free_text': 'Kani 0.68 function contract / harness on NodeId (leaf code only)'},
    ],
    'checks': checks,
    'notes': 'One shared Verus run per tree (cached by content hash) serves all 17 checks; exit 2 = undecided (lost anchor, unsupported construct, rlimit), never an alarm. Genuine defects found on the pinned tree were repaired by fix: commits in /repo and are recorded in known_findings.txt (fixed entries suppress nothing).',
    'not_applicable': [],
}
json.dump(m, open(os.path.join(V, 'MANIFEST.json'), 'w'), indent=1)
print('ok')
