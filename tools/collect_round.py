#!/usr/bin/env python3
"""usage: collect_round.py <round_dir> [confirm.log]
Reads the per-change results written by tools/run_seeded.py (<round_dir>/<id>.json), refreshes seeded/<id>/meta.json,
seeded/orig_D*/meta.json and seeded/harmless/results.json, and prints the tables of DESIGN.md 11.6."""
import glob, json, os, re, sys
V = os.path.normpath(os.path.join(os.path.dirname(os.path.abspath(__file__)), '..'))
rd = sys.argv[1]
confirm = {}
if len(sys.argv) > 2 and os.path.exists(sys.argv[2]):
    for l in open(sys.argv[2]):
        p = l.split(' | ')
        if len(p) >= 4 and 'CONFIRMED' in p[0]:
            confirm[p[0].split()[0]] = {'demo_on_clean_tree': p[1].strip(), 'baseline_tests_with_change': p[2].strip(), 'demo_with_change': p[3].strip()}


def summarise(res):
    viol = {p: r['obligations'] for p, r in sorted(res.items()) if r['exit'] == 1}
    und = [p for p, r in sorted(res.items()) if r['exit'] == 2]
    why = sorted(set(re.sub(r'UNDECIDED property=C\d\d ', '', u)[:160] for p, r in res.items() for u in r.get('undecided', [])))
    return viol, und, why


def short(viol):
    return '; '.join('%s: %s' % (p, ', '.join(sorted(set(o.split('.', 1)[1] if '.' in o else o for o in obl))[:4]) + (' ...' if len(set(obl)) > 4 else ''))
                     for p, obl in sorted(viol.items()))


rows = []
for d in sorted(glob.glob(os.path.join(V, 'seeded', 'C*_[12]'))) + sorted(glob.glob(os.path.join(V, 'seeded', 'b2_C*_[12]'))) + sorted(glob.glob(os.path.join(V, 'seeded', 'b3_C*_[12]'))) + sorted(glob.glob(os.path.join(V, 'seeded', 'b4_C*_[12]'))) + sorted(glob.glob(os.path.join(V, 'seeded', 'b5_C*_[12]'))):
    m = os.path.basename(d)
    rf = os.path.join(rd, m + '.json')
    if not os.path.exists(rf):
        continue
    res = json.load(open(rf))
    viol, und, why = summarise(res)
    prop = m.replace('b2_', '').replace('b3_', '').replace('b4_', '').replace('b5_', '').split('_')[0]
    if os.path.exists(os.path.join(d, 'confirm.json')):
        confirm[m] = json.load(open(os.path.join(d, 'confirm.json')))
    notes = open(os.path.join(d, 'notes.md')).read() if os.path.exists(os.path.join(d, 'notes.md')) else ''
    meta = {'id': m, 'breaks_property': prop, 'source': 'independent sub-agent given only the property text and a scratch worktree',
            'needs_to_manifest': notes[:1500],
            'confirmed_by_me': confirm.get(m, {}),
            'checks_run': 'tools/run_seeded.py seeded/%s/patch.diff (patch applied to a copy of /repo, all 17 quick checks)' % m,
            'violations_reported': viol, 'undecided': und, 'undecided_because': why,
            'caught': bool(viol), 'caught_by_target_property': prop in viol}
    json.dump(meta, open(os.path.join(d, 'meta.json'), 'w'), indent=1)
    rows.append((m, prop, viol, und, why))
for i in range(1, 12):
    d = os.path.join(V, 'seeded', 'orig_D%d' % i)
    rf = os.path.join(rd, 'orig_D%d.json' % i)
    if not os.path.exists(rf):
        continue
    res = json.load(open(rf))
    viol, und, why = summarise(res)
    json.dump(res, open(os.path.join(d, 'result.json'), 'w'), indent=1)
    json.dump({'id': 'orig_D%d' % i, 'what': open(os.path.join(d, 'subject.txt')).read().strip(),
               'source': 'reverse patch of a fix: commit (re-introduces a genuine defect of the pinned tree)',
               'violations_reported': viol, 'undecided': und, 'undecided_because': why, 'caught': bool(viol)}, open(os.path.join(d, 'meta.json'), 'w'), indent=1)
    rows.append(('orig_D%d' % i, '-', viol, und, why))
print('| change | target | reported as VIOLATION by (obligations) | UNDECIDED for |')
print('|---|---|---|---|')
for m, prop, viol, und, why in rows:
    v = short(viol) or '**not reported**'
    print('| %s | %s | %s | %s |' % (m, prop, v, ' '.join(und)))
print()
hres = {}
print('| behaviour-preserving change | what it does | VIOLATION | UNDECIDED for (reason) |')
print('|---|---|---|---|')
for f in sorted(glob.glob(os.path.join(V, 'seeded', 'harmless', '*.diff'))):
    m = os.path.basename(f)[:-5]
    rf = os.path.join(rd, 'harmless_%s.json' % m)
    if not os.path.exists(rf):
        continue
    res = json.load(open(rf))
    viol, und, why = summarise(res)
    hres[m] = {'violations_reported': viol, 'undecided': und, 'undecided_because': why}
    what = open(f[:-5] + '.txt').read().strip().split('\n')[0][:110] if os.path.exists(f[:-5] + '.txt') else ''
    print('| %s | %s | %s | %s |' % (m, what.replace('|', '/'), short(viol) or 'none', (' '.join(und) + (' (' + why[0][:90].replace('|', '/') + ')' if why else '')) or '-'))
json.dump(hres, open(os.path.join(V, 'seeded', 'harmless', 'results.json'), 'w'), indent=1)
n = [r for r in rows if not r[0].startswith('orig')]
print()
print('sub-agent changes: %d, reported: %d, by the target property: %d; original defects re-introduced: %d, reported: %d; harmless: %d, false alarms: %d, fully decided: %d'
      % (len(n), len([r for r in n if r[2]]), len([r for r in n if r[1] in r[2]]),
         len(rows) - len(n), len([r for r in rows if r[0].startswith('orig') and r[2]]),
         len(hres), len([h for h in hres.values() if h['violations_reported']]), len([h for h in hres.values() if not h['undecided'] and not h['violations_reported']])))
