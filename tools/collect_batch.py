#!/usr/bin/env python3
"""usage: collect_batch.py <prefix> <result_dir>  -- for a later batch measured on its own (e.g. prefix b6_): reads the per-change
results written by tools/run_seeded.py (<result_dir>/<id>.json), writes seeded/<id>/meta.json and prints the table of DESIGN.md 11.7."""
import glob, json, os, re, sys
V = os.path.normpath(os.path.join(os.path.dirname(os.path.abspath(__file__)), '..'))
pref, rd = sys.argv[1], sys.argv[2]
rows = []
for d in sorted(glob.glob(os.path.join(V, 'seeded', pref + 'C*_[12]'))):
    m = os.path.basename(d)
    rf = os.path.join(rd, m + '.json')
    if not os.path.exists(rf):
        continue
    res = json.load(open(rf))
    viol = {p: r['obligations'] for p, r in sorted(res.items()) if r['exit'] == 1}
    und = [p for p, r in sorted(res.items()) if r['exit'] == 2]
    why = sorted(set(re.sub(r'UNDECIDED property=C\d\d ', '', u)[:160] for p, r in res.items() for u in r.get('undecided', [])))
    prop = m[len(pref):].split('_')[0]
    confirm = json.load(open(os.path.join(d, 'confirm.json'))) if os.path.exists(os.path.join(d, 'confirm.json')) else {}
    notes = open(os.path.join(d, 'notes.md')).read() if os.path.exists(os.path.join(d, 'notes.md')) else ''
    meta = {'id': m, 'breaks_property': prop, 'source': 'independent sub-agent given only the property text and a scratch worktree',
            'needs_to_manifest': notes[:1500], 'confirmed_by_me': confirm,
            'checks_run': 'tools/run_seeded.py seeded/%s/patch.diff (patch applied to a copy of /repo, all 17 quick checks)' % m,
            'violations_reported': viol, 'undecided': und, 'undecided_because': why[:3],
            'caught': bool(viol), 'caught_by_target_property': prop in viol}
    json.dump(meta, open(os.path.join(d, 'meta.json'), 'w'), indent=1)
    first = notes.strip().split('\n')
    rows.append((m, prop, viol, und, why))
print('| change | target | reported as VIOLATION by (obligations) | UNDECIDED for |')
print('|---|---|---|---|')
for m, prop, viol, und, why in rows:
    v = '; '.join('%s: %s' % (p, ', '.join(sorted(set(o.split('.', 1)[1] if '.' in o else o for o in obl))[:4]) + (' ...' if len(set(obl)) > 4 else '')) for p, obl in sorted(viol.items())) or '**not reported**'
    print('| %s | %s | %s | %s |' % (m, prop, v, ' '.join(und)))
n = len(rows); rep = len([r for r in rows if r[2]]); tgt = len([r for r in rows if r[1] in r[2]])
print('\n%d changes, %d reported, %d by the property aimed at' % (n, rep, tgt))
