#!/usr/bin/env python3
"""Copies the confirmed sub-agent mutations from /tmp/mut_out into /verif/seeded/<id>/ (patch.diff, demo.rs, notes.md, meta.json)
and prints the table for DESIGN.md 11.6."""
import glob, json, os, re, shutil, sys
V = os.path.normpath(os.path.join(os.path.dirname(os.path.abspath(__file__)), '..'))
rows = []
for d in sorted(glob.glob('/tmp/mut_out/C*_[12]')):
    m = os.path.basename(d)
    if not os.path.exists(os.path.join(d, 'result.json')):
        continue
    out = os.path.join(V, 'seeded', m)
    os.makedirs(out, exist_ok=True)
    for f in ('patch.diff', 'demo.rs', 'notes.md'):
        if os.path.exists(os.path.join(d, f)):
            shutil.copy(os.path.join(d, f), out)
    res = json.load(open(os.path.join(d, 'result.json')))
    confirm = {}
    cf = os.path.join(d, 'confirm.json')
    if os.path.exists(cf):
        confirm = json.load(open(cf))
    prop = m.split('_')[0]
    viol = {p: r['obligations'] for p, r in res.items() if r['exit'] == 1}
    und = [p for p, r in res.items() if r['exit'] == 2]
    notes = open(os.path.join(d, 'notes.md')).read() if os.path.exists(os.path.join(d, 'notes.md')) else ''
    meta = {'id': m, 'breaks_property': prop, 'source': 'independent sub-agent given only the property text and a scratch worktree',
            'needs_to_manifest': notes[:1500], 'confirmed_by_me': confirm,
            'checks_run': 'tools/run_seeded.py %s/patch.diff (git apply in /repo, all 17 quick checks, git checkout)' % m,
            'violations_reported': viol, 'undecided': und,
            'caught': bool(viol), 'caught_by_target_property': prop in viol}
    json.dump(meta, open(os.path.join(out, 'meta.json'), 'w'), indent=1)
    rows.append((m, prop, viol, und))
for i in range(1, 11):
    d = os.path.join(V, 'seeded', 'orig_D%d' % i)
    rf = os.path.join(d, 'result.json')
    if not os.path.exists(rf):
        continue
    res = json.load(open(rf))
    viol = {p: r['obligations'] for p, r in res.items() if r['exit'] == 1}
    und = [p for p, r in res.items() if r['exit'] == 2]
    json.dump({'id': 'orig_D%d' % i, 'what': open(os.path.join(d, 'subject.txt')).read().strip(), 'source': 'reverse patch of a fix: commit (re-introduces a genuine defect of the pinned tree)',
               'violations_reported': viol, 'undecided': und, 'caught': bool(viol)}, open(os.path.join(d, 'meta.json'), 'w'), indent=1)
    rows.append(('orig_D%d' % i, '-', viol, und))
print('| change | target | reported as VIOLATION by (obligations) | UNDECIDED for |')
print('|---|---|---|---|')
for m, prop, viol, und in rows:
    v = '; '.join('%s: %s' % (p, ', '.join(o.split('.', 1)[1] if '.' in o else o for o in obl[:4]) + (' ...' if len(obl) > 4 else '')) for p, obl in sorted(viol.items())) or '**not reported**'
    print('| %s | %s | %s | %s |' % (m, prop, v, ' '.join(und) if len(und) < 17 else 'all'))
