#!/usr/bin/env python3
"""Generates contracts/24_enr_mutators.vpc: the uniform clause bundle (C05 valid/rekey, C06 atomic, C07 seq,
C08 effect/returns/errkind, C09 refused_iff, C10 node id) for every public mutator of Enr<K>.
Run by hand when the bundle changes; the output is committed."""
import sys

def bundle(fn, label, keyvar, nc, seq_mode='plus', returns=None, value_checked='false', k='Seq::<u8>::empty()', v='Seq::<u8>::empty()',
           extra_req=(), extra_ens=(), hints=''):
    new_seq = "old(self).seq as nat + 1" if seq_mode == 'plus' else "seq as nat"
    out = []
    out.append("@fn Enr::%s" % fn)
    # own solver process: the query does not depend on what else the file holds (an edit elsewhere cannot push it over the resource limit)
    out.append("@attr spinoff_prover")
    out.append("requires")
    out.append("    old(self).valid(),")
    out.append("    // \"with the record's own key or with another key of the same signature scheme\"")
    out.append("    %s.spec_compatible(%s)," % (keyvar, nc))
    for r in extra_req:
        out.append("    %s," % r)
    out.append("ensures")
    out.append("    // [C06.%s.atomic] a failed update leaves the record untouched, whatever the cause (incl. a signing fault)" % label)
    out.append("    r is Err ==> final(self).same_as(old(self)),")
    # C15 / C04: a record equals its decode-after-encode image exactly when it is valid (node id = hash of the stored key, values well typed, size within the limit)
    out.append("    // [C05.%s.valid] [C09.%s.limit] [C10.%s.nodeid_ok] [C15.%s.image] [C04.%s.image]" % (label, label, label, label, label))
    out.append("    r is Ok ==> final(self).valid(),")
    if seq_mode == 'plus':
        out.append("    // [C07.%s.plus_one] exactly +1, however many fields the update touches" % label)
        out.append("    r is Ok ==> final(self).seq == old(self).seq + 1,")
        out.append("    // [C07.%s.max] no wrap at 2^64-1" % label)
        out.append("    old(self).seq == u64::MAX ==> r is Err,")
    else:
        out.append("    // [C07.%s.exact] sets exactly the requested value" % label)
        out.append("    r is Ok ==> final(self).seq == seq,")
    out.append("    // [C08.%s.effect] whole-map effect: exactly the named keys change (plus the signer's public key); every other pair is untouched" % label)
    out.append("    r is Ok ==> final(self).cm() == %s," % nc)
    if returns:
        out.append("    // [C08.%s.returns]" % label)
        out.append("    %s," % returns)
    out.append("    // [C05.%s.rekey] [C10.%s.nodeid] afterwards public key, node id and signature are those of the signer" % (label, label))
    out.append("    r is Ok ==> final(self).pk() == Some(%s.spec_public())," % keyvar)
    out.append("    // [C09.%s.refused_iff] with 64-byte signatures: refused for size exactly when the result would exceed 300 bytes" % label)
    out.append("    (K::spec_sig_len() == Some(64nat) && old(self).signature@.len() == 64) ==> (")
    out.append("        (r matches Err(Error::ExceedsMaxSize) ==> rec_size(64, %s, %s) > 300)" % (new_seq, nc))
    out.append("        && (rec_size(64, %s, %s) > 300 ==> r is Err))," % (new_seq, nc))
    if seq_mode == 'plus':
        out.append("    // [C07.%s.max_err] at 2^64-1 the update is refused because of the sequence number: a size error is reported only if the" % label)
        out.append("    // size limit is exceeded as well (implied by the clause above; it names the property a swapped error constant breaks)")
        out.append("    (old(self).seq == u64::MAX && K::spec_sig_len() == Some(64nat) && old(self).signature@.len() == 64) ==>")
        out.append("        (r matches Err(Error::ExceedsMaxSize) ==> rec_size(64, %s, %s) > 300)," % (new_seq, nc))
    out.append("    // [C08.%s.errkind] the reported error kind matches its cause" % label)
    if seq_mode == 'plus':
        out.append("    r matches Err(e) ==> err_cause_update::<K>(e, old(self).seq, old(self).signature@.len(), %s, %s, %s, %s)," % (nc, value_checked, k, v))
    else:
        out.append("    r matches Err(e) ==> match e {")
        out.append("        Error::ExceedsMaxSize => (K::spec_sig_len() == Some(64nat) && old(self).signature@.len() == 64) ==> rec_size(64, seq as nat, %s) > 300," % nc)
        out.append("        Error::SigningError => id_is_v4(%s)," % nc)
        out.append("        _ => false,")
        out.append("    },")
    for e in extra_ens:
        out.append("    %s" % e)
    if hints:
        out.append(hints.rstrip('\n'))
    out.append("@end\n")
    return '\n'.join(out)

PK_HINT = '''    proof {
        // [C08.%(label)s.effect] the working copy now holds exactly the model's pairs (plus the signer's key)
        assert(new_enr.cm() =~= nc);
        %(key)s.law_pk_entry_ok();
        %(key)s.law_pk_roundtrip(nc);
        lemma_keys_distinct();
        // [C05.%(label)s.valid] every stored value is a well-typed single RLP item
        assert(values_ok(nc));
%(extra)s    }
'''
SIZE_HINT = '''    proof {
        if new_enr.signature@.len() == 64 {
            lemma_record_len_sig(new_enr.signature@, Seq::new(64, |i: int| 0u8), %(seq)s, nc);
        }
    }
'''

def main():
    o = []
    o.append("# GENERATED by tools/gen_mutator_contracts.py -- the uniform clause bundle for every public mutator of Enr<K>.\n")

    # ---- insert
    nc = "with_pk(old(self).cm().insert(key.aref()@, value.rlp()), enr_key)"
    o.append(bundle('insert', 'insert', 'enr_key', nc,
                    returns="r matches Ok(prev) ==> prev_is(prev, old(self).cm(), key.aref()@)",
                    value_checked='true', k='key.aref()@', v='value.rlp()'))

    # ---- set_seq
    nc = "with_pk(old(self).cm(), key)"
    hints = "@anchor start\n    let ghost nc = %s;\n    let ghost mid = old(self).content@;\n" % nc
    hints += "@anchor after \"new_enr.content.insert(public_key.enr_key()\"\n" + PK_HINT % {'key': 'key', 'extra': '', 'label': 'set_seq'}
    hints += "@anchor after \"new_enr.node_id =\"\n" + SIZE_HINT % {'seq': 'seq as nat'}
    o.append(bundle('set_seq', 'set_seq', 'key', nc, seq_mode='exact', hints=hints))

    # ---- remove_key
    nc = "with_pk(old(self).cm().remove(content_key.aref()@), enr_key)"
    hints = "@anchor start\n    let ghost nc = %s;\n    let ghost oldc = old(self).content@;\n" % nc
    hints += "@anchor after \"new_enr.content.remove(content_key.as_ref())\"\n    proof { lemma_cmap_remove(oldc, new_enr.content@, content_key.aref()); }\n    let ghost mid = new_enr.content@;\n"
    hints += "@anchor after \"new_enr.content.insert(public_key.enr_key()\"\n" + PK_HINT % {'key': 'enr_key', 'extra': '', 'label': 'remove_key'}
    hints += "@anchor after \"new_enr.node_id =\"\n" + SIZE_HINT % {'seq': 'old(self).seq as nat + 1'}
    o.append(bundle('remove_key', 'remove_key', 'enr_key', nc, hints=hints))

    # ---- set_socket (private helper of set_udp_socket / set_tcp_socket)
    nc = "with_pk(socket_content(old(self).cm(), socket, is_tcp), key)"
    hints = "@anchor start\n    hide(parse_hdr); hide(hdr); hide(rlp_str); hide(be_trim);\n    let ghost nc = %s;\n    let ghost oldc = old(self).content@;\n" % nc
    hints += ("@anchor after \"let public_key = key.public()\"\n    let ghost mid = new_enr.content@;\n"
              "    proof {\n        lemma_keys_distinct();\n"
              "        match sa_ip(socket) {\n"
              "            IpAddr::V4(a) => {\n"
              "                crate::trusted::axiom_ip4_len(a);\n"
              "                lemma_ip4_stored(ip4_octets(a));\n"
              "                lemma_port_stored(if is_tcp { TCP() } else { UDP() }, sa_port(socket) as nat);\n"
              "            }\n"
              "            IpAddr::V6(a) => {\n"
              "                crate::trusted::axiom_ip6_len(a);\n"
              "                lemma_ip6_stored(ip6_octets(a));\n"
              "                lemma_port_stored(if is_tcp { TCP6() } else { UDP6() }, sa_port(socket) as nat);\n"
              "            }\n"
              "        }\n"
              "        // [C08.set_socket.effect] [C14.set_socket.stores] only this family's ip and port keys are written, with the canonical encodings\n"
              "        assert(cmap(mid) =~= socket_content(old(self).cm(), socket, is_tcp));\n"
              "    }\n")
    extra = ("        if old(self).signature@.len() == 64 {\n"
             "            lemma_record_len_sig(old(self).signature@, Seq::new(64, |i: int| 0u8), old(self).seq as nat, nc);\n"
             "            lemma_record_len_mono(Seq::new(64, |i: int| 0u8), old(self).seq as nat, old(self).seq as nat + 1, nc);\n"
             "        }\n")
    hints += "@anchor after \"new_enr.content.insert(public_key.enr_key()\"\n" + PK_HINT % {'key': 'key', 'extra': extra, 'label': 'set_socket'}
    hints += "@anchor after \"new_enr.node_id =\"\n" + SIZE_HINT % {'seq': 'old(self).seq as nat + 1'}
    o.append(bundle('set_socket', 'set_socket', 'key', nc, hints=hints))
    for w, tcp in (('set_udp_socket', 'false'), ('set_tcp_socket', 'true')):
        nc = "with_pk(socket_content(old(self).cm(), socket, %s), key)" % tcp
        o.append(bundle(w, w, 'key', nc))

    # ---- typed port setters / removers
    for fn, keyc, arg in (('set_udp4', 'UDP()', 'udp'), ('set_udp6', 'UDP6()', 'udp'), ('set_tcp4', 'TCP()', 'tcp'), ('set_tcp6', 'TCP6()', 'tcp')):
        nc = "with_pk(old(self).cm().insert(%s, rlp_uint(%s as nat)), key)" % (keyc, arg)
        hints = "@anchor start\n    proof { lemma_port_stored(%s, %s as nat); lemma_keys_distinct(); }\n" % (keyc, arg)
        o.append(bundle(fn, fn, 'key', nc,
                        returns="r matches Ok(prev) ==> prev == spec_port(old(self).cm(), %s)" % keyc,
                        extra_ens=("// [C14.%s.canonical] what the setter stores is the canonical encoding (no leading zeros) of the port\n    r is Ok ==> final(self).cm()[%s] == rlp_uint(%s as nat) || pk_key(key) == %s," % (fn, keyc, arg, keyc),),
                        hints=hints))
    for fn, keyc in (('remove_udp4', 'UDP()'), ('remove_udp6', 'UDP6()'), ('remove_tcp', 'TCP()'), ('remove_tcp6', 'TCP6()')):
        nc = "with_pk(old(self).cm().remove(%s), key)" % keyc
        o.append(bundle(fn, fn, 'key', nc))

    # ---- socket removers (remove_insert with two fixed keys and no inserts)
    for fn, k1, k2 in (('remove_udp_socket', 'IP()', 'UDP()'), ('remove_udp6_socket', 'IP6()', 'UDP6()'),
                       ('remove_tcp_socket', 'IP()', 'TCP()'), ('remove_tcp6_socket', 'IP6()', 'TCP6()')):
        nc = "with_pk(old(self).cm().remove(%s).remove(%s), key)" % (k1, k2)
        hints = ("@anchor before \"self.remove_insert(\"\n    proof {\n"
                 "        reveal_with_fuel(fold_removes, 3);\n"
                 "        reveal_with_fuel(fold_inserts, 1);\n"
                 "        let rk = keys_to_remove.remaining();\n"
                 "        assert(rk.len() == 2);\n"
                 "        assert(rk.drop_last().drop_last() =~= Seq::empty());\n"
                 "        // [C08.%s.effect] exactly the two keys of this socket are removed\n"
                 "        assert(fold_removes(old(self).cm(), rk) == old(self).cm().remove(%s).remove(%s));\n"
                 "    }\n" % (fn, k1, k2))
        o.append(bundle(fn, fn, 'key', nc, hints=hints))

    # ---- set_ip
    nc = "with_pk(ip_content(old(self).cm(), ip), key)"
    ret = ("r matches Ok(prev) ==> match ip {\n"
           "        IpAddr::V4(_) => match prev { Some(IpAddr::V4(p)) => spec_ip4(old(self).cm()) == Some(ip4_octets(p)), Some(IpAddr::V6(_)) => false, None => spec_ip4(old(self).cm()) is None },\n"
           "        IpAddr::V6(_) => match prev { Some(IpAddr::V6(p)) => spec_ip6(old(self).cm()) == Some(ip6_octets(p)), Some(IpAddr::V4(_)) => false, None => spec_ip6(old(self).cm()) is None },\n"
           "    }")
    hints = ("@anchor start\n    proof {\n        lemma_keys_distinct();\n        match ip {\n"
             "            IpAddr::V4(a) => { crate::trusted::axiom_ip4_len(a); lemma_ip4_stored(ip4_octets(a)); }\n"
             "            IpAddr::V6(a) => { crate::trusted::axiom_ip6_len(a); lemma_ip6_stored(ip6_octets(a)); }\n"
             "        }\n    }\n")
    o.append(bundle('set_ip', 'set_ip', 'key', nc, returns=ret, hints=hints))

    # ---- set_client_info
    nc = ("with_pk(old(self).cm().insert(CLIENT(), match build { None => seq![name, version].rlp_spec(), Some(b) => seq![name, version, b].rlp_spec() }), key)")
    # expressed through a helper defined in the ghost module
    nc = "with_pk(old(self).cm().insert(CLIENT(), client_rlp(name, version, build)), key)"
    hints = ("@anchor start\n    proof {\n"
             "        assert(seq_rlp(seq![name, version]) =~= seq![rlp_str(utf8(name@)), rlp_str(utf8(version@))]);\n"
             "        if build is Some {\n"
             "            assert(seq_rlp(seq![name, version, build->0]) =~= seq![rlp_str(utf8(name@)), rlp_str(utf8(version@)), rlp_str(utf8(build->0@))]);\n"
             "        }\n    }\n")
    o.append(bundle('set_client_info', 'set_client_info', 'key', nc, value_checked='true', k='CLIENT()', v='client_rlp(name, version, build)', hints=hints))

    # ---- set_public_key
    nc = "with_pk(old(self).cm().insert(public_key.spec_enr_key(), rlp_str(public_key.spec_encode())), key)"
    o.append(bundle('set_public_key', 'set_public_key', 'key', nc, value_checked='true', k='public_key.spec_enr_key()', v='rlp_str(public_key.spec_encode())',
                    hints="@anchor start\n    proof { key.law_pk_entry_ok(); lemma_rlp_str_stored(key.spec_public().spec_encode()); }\n",
                    extra_ens=("// [C08.set_public_key.own_ok] setting the public key to the signer's own key is never refused by the value check\n"
                               "    *public_key == key.spec_public() ==> (r matches Err(e) ==> (e matches Error::ExceedsMaxSize || e matches Error::SequenceNumberTooHigh || e matches Error::SigningError)),",)))

    sys.stdout.write('\n'.join(o))

main()
