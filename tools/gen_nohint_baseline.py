#!/usr/bin/env python3
"""Computes contracts/nohint_baseline.json: for every function that carries proof hints, the labelled clauses that Verus
discharges on the UNCHANGED tree *without* any hint.  Used only to classify failures inside functions whose hints could not be
placed on a changed tree: a clause that is proved hint-free on the unchanged tree and fails hint-free on the changed tree is a
violation; everything else stays undecided.  Run by hand on the unchanged tree when contracts change; the output is committed."""
import json, os, re, sys
V = os.path.normpath(os.path.join(os.path.dirname(os.path.abspath(__file__)), '..'))
sys.path.insert(0, os.path.join(V, 'lib'))
import vpdriver as D
from vpanalyze import GenIndex, failures

hinted = set()
for f in sorted(os.listdir(os.path.join(V, 'contracts'))):
    if not f.endswith('.vpc'):
        continue
    cur = None
    for line in open(os.path.join(V, 'contracts', f)):
        t = line.strip()
        if t.startswith('@fn '):
            cur = re.sub(r'\s+', '', t[4:])
        elif t.startswith(('@anchor', '@loop', '@closure')) and cur:
            hinted.add(cur)
        elif t.startswith('@end'):
            cur = None
cfg = json.load(open(os.path.join(V, 'contracts', 'extract.json')))
cfg['nohint_fns'] = sorted(hinted)
out = os.path.join(D.BUILD, 'nohint_baseline')
os.makedirs(out, exist_ok=True)
cfgp = os.path.join(out, 'extract.json')
norm = lambda k: re.sub(r'\s+', '', str(k))
toolfail = set()
for attempt in range(6):
    cfg['drop_bodies'] = list(json.load(open(os.path.join(V, 'contracts', 'extract.json')))['drop_bodies']) + sorted(toolfail)
    json.dump(cfg, open(cfgp, 'w'))
    path, log, err = D.gen(out, extract_cfg=cfgp)
    assert not err, err
    res = D.run_verus(path, [])
    gi = GenIndex(path)
    fl = failures(gi, res['diags'])
    tool = [f for f in fl if f['kind'] == 'tool']
    if not tool:
        break
    new = set(norm(f['fn']) for f in tool if f['fn']) - toolfail
    print('attempt', attempt, 'tool errors in', sorted(new))
    assert new, [f['message'] for f in tool]
    toolfail |= new
assert (res.get('json') or {}).get('verification-results', {}).get('verified', 0) > 0
fn_labels = gi.fn_labels()
baseline = {}
for h in sorted(hinted):
    key = next((k for k in fn_labels if norm(k) == h), None)
    if key is None:
        continue
    if h in toolfail:
        baseline[h] = []
        continue
    mine = [f for f in fl if norm(f['fn']) == h]
    if any(f['kind'] != 'semantic' for f in mine):
        baseline[h] = []          # tool error / rlimit without hints: nothing can be said
        continue
    # any failure that is not a labelled postcondition taints the whole function
    if any(not f['labels'] or 'postcondition' not in f['message'] for f in mine):
        baseline[h] = []
        continue
    failed = set(l for f in mine for l in f['labels'])
    baseline[h] = sorted(l for l in fn_labels[key] if l not in failed)
json.dump(baseline, open(os.path.join(V, 'contracts', 'nohint_baseline.json'), 'w'), indent=1, sort_keys=True)
print('functions with hints: %d; with a non-empty hint-free baseline: %d' % (len(hinted), len([k for k, v in baseline.items() if v])))
for k, v in baseline.items():
    print(' ', k, len(v))
