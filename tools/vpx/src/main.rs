//! vpx — mechanical extractor / normaliser / contract injector.
//!
//! usage: vpx <repo_root> <extract.json> <contracts_dir> <out_dir>
//!
//! Reads the listed source files of the repository with `syn`, copies every item
//! token for token, applies the purely syntactic normalisation rules N1..N13 of
//! DESIGN.md §3 (each application is logged), plants marker macros where contract
//! text has to go, pretty-prints with rustfmt and finally replaces the markers by
//! the Verus text of /verif/contracts/*.vpc.  Output: <out_dir>/code_<module>.rs
//! fragments + <out_dir>/extract_log.json.
//!
//! Exit status: 0 ok; 3 = an anchor / function named by a contract was not found in
//! the source (the driver turns this into "undecided", exit 2, never an alarm).

use proc_macro2::{Span, TokenStream};
use quote::{format_ident, quote, ToTokens};
use serde_json::{json, Value};
use std::collections::{BTreeMap, BTreeSet};
use std::fs;
use std::io::Write;
use std::process::{Command, Stdio};
use syn::punctuated::Punctuated;
use syn::visit_mut::{self, VisitMut};
use syn::*;

// ---------------------------------------------------------------- contracts

#[derive(Default, Debug, Clone)]
struct Anchor {
    pos: String,    // before | after | start | loopstart | loopend
    nth: usize,     // occurrence (0-based) for before/after; loop ordinal for loopstart/loopend
    prefix: String, // normalised token prefix
    text: String,
    used: bool,
}

#[derive(Default, Debug, Clone)]
struct LoopC {
    text: String,
    iter_name: Option<String>,
    used: bool,
}

#[derive(Default, Debug, Clone)]
struct FnC {
    key: String,
    header: String, // requires/ensures text
    loops: BTreeMap<usize, LoopC>,
    closures: BTreeMap<usize, String>,
    closure_like: BTreeMap<usize, String>, // ordinal (>= 1000) -> normalised prefix of the closure BODY the contract belongs to
    anchors: Vec<Anchor>,
    attrs: Vec<String>, // extra verifier attributes, e.g. rlimit(60)
    used: bool,
    file: String,
}

#[derive(Default)]
struct Contracts {
    fns: BTreeMap<String, FnC>,
    traits: BTreeMap<String, String>, // "trait EnrKey" / "impl EnrKey for CombinedKey" -> items text
    modules: BTreeMap<String, String>, // module path -> appended ghost text
    used_traits: BTreeSet<String>,
}

fn norm(s: &str) -> String {
    s.chars().filter(|c| !c.is_whitespace()).collect()
}

fn parse_contracts(dir: &str, config: &str) -> Contracts {
    let mut c = Contracts::default();
    let mut files: Vec<_> = fs::read_dir(dir)
        .expect("contracts dir")
        .filter_map(|e| e.ok())
        .map(|e| e.path())
        .filter(|p| p.extension().map(|x| x == "vpc").unwrap_or(false))
        .collect();
    files.sort();
    for p in files {
        let txt = fs::read_to_string(&p).unwrap();
        let fname = p.file_name().unwrap().to_string_lossy().to_string();
        // `@only-config <name>`: the whole file belongs to one extraction configuration (extract.json: "config")
        if let Some(l) = txt.lines().find(|l| l.trim_start().starts_with("@only-config ")) {
            if l.trim_start()["@only-config ".len()..].trim() != config {
                continue;
            }
        }
        enum Sec {
            None,
            FnHeader(String),
            Loop(String, usize),
            Anchor(String, usize),
            Items(String),
            Module(String),
            Closure(String, usize),
        }
        let mut sec = Sec::None;
        for line in txt.lines() {
            let t = line.trim_start();
            if t.starts_with("@only-config ") {
                continue;
            }
            if t.starts_with("@fn ") {
                let key = norm(&t[4..]);
                let e = c.fns.entry(key.clone()).or_default();
                e.key = key.clone();
                e.file = fname.clone();
                sec = Sec::FnHeader(key);
            } else if t.starts_with("@attr ") {
                if let Sec::FnHeader(k) | Sec::Loop(k, _) | Sec::Anchor(k, _) | Sec::Closure(k, _) = &sec {
                    c.fns.get_mut(k).unwrap().attrs.push(t[6..].trim().to_string());
                }
            } else if t.starts_with("@loop ") {
                let k = match &sec {
                    Sec::FnHeader(k) | Sec::Loop(k, _) | Sec::Anchor(k, _) | Sec::Closure(k, _) => k.clone(),
                    _ => panic!("{fname}: @loop outside @fn"),
                };
                let mut it = t[6..].split_whitespace();
                let ord: usize = it.next().unwrap().parse().unwrap();
                let mut lc = LoopC::default();
                for w in it {
                    if let Some(n) = w.strip_prefix("iter=") {
                        lc.iter_name = Some(n.to_string());
                    }
                }
                c.fns.get_mut(&k).unwrap().loops.insert(ord, lc);
                sec = Sec::Loop(k, ord);
            } else if t.starts_with("@closure-like ") {
                // a closure contract attached by CONTENT: `@closure-like "<normalised prefix of the closure body>"`; optional
                // (no LOST-CLOSURE when nothing matches), used for the plausible rewrites of a closure-heavy function
                let k = match &sec {
                    Sec::FnHeader(k) | Sec::Loop(k, _) | Sec::Anchor(k, _) | Sec::Closure(k, _) => k.clone(),
                    _ => panic!("{fname}: @closure-like outside @fn"),
                };
                let pre = norm(t["@closure-like ".len()..].trim().trim_matches('"'));
                let f = c.fns.get_mut(&k).unwrap();
                let ord = 1000 + f.closure_like.len();
                f.closure_like.insert(ord, pre);
                f.closures.insert(ord, String::new());
                sec = Sec::Closure(k, ord);
            } else if t.starts_with("@closure ") {
                let k = match &sec {
                    Sec::FnHeader(k) | Sec::Loop(k, _) | Sec::Anchor(k, _) | Sec::Closure(k, _) => k.clone(),
                    _ => panic!("{fname}: @closure outside @fn"),
                };
                let ord: usize = t[9..].trim().parse().unwrap();
                c.fns.get_mut(&k).unwrap().closures.insert(ord, String::new());
                sec = Sec::Closure(k, ord);
            } else if t.starts_with("@anchor ") {
                let k = match &sec {
                    Sec::FnHeader(k) | Sec::Loop(k, _) | Sec::Anchor(k, _) | Sec::Closure(k, _) => k.clone(),
                    _ => panic!("{fname}: @anchor outside @fn"),
                };
                // @anchor before|after [#n] "prefix"   |  @anchor start | loopstart n | loopend n
                let rest = t[8..].trim();
                let mut a = Anchor::default();
                let (pos, rest) = rest.split_once(' ').unwrap_or((rest, ""));
                a.pos = pos.to_string();
                let mut rest = rest.trim();
                if a.pos == "loopstart" || a.pos == "loopend" {
                    a.nth = rest.parse().expect("loop ordinal");
                } else if a.pos == "before" || a.pos == "after" {
                    if let Some(r) = rest.strip_prefix('#') {
                        let (n, r2) = r.split_once(' ').unwrap();
                        a.nth = n.parse().unwrap();
                        rest = r2.trim();
                    }
                    let q = rest.trim();
                    assert!(q.starts_with('"') && q.ends_with('"'), "{fname}: anchor prefix must be quoted: {t}");
                    a.prefix = norm(&q[1..q.len() - 1]);
                } else if a.pos != "start" && a.pos != "tail" {
                    panic!("{fname}: bad anchor {t}");
                }
                let f = c.fns.get_mut(&k).unwrap();
                f.anchors.push(a);
                let idx = f.anchors.len() - 1;
                sec = Sec::Anchor(k, idx);
            } else if t.starts_with("@items ") {
                let key = norm(&t[7..]);
                c.traits.entry(key.clone()).or_default();
                sec = Sec::Items(key);
            } else if t.starts_with("@module ") {
                let key = t[8..].trim().to_string();
                c.modules.entry(key.clone()).or_default();
                sec = Sec::Module(key);
            } else if t.starts_with("@end") {
                sec = Sec::None;
            } else {
                match &sec {
                    Sec::None => {}
                    Sec::FnHeader(k) => {
                        let f = c.fns.get_mut(k).unwrap();
                        f.header.push_str(line);
                        f.header.push('\n');
                    }
                    Sec::Loop(k, o) => {
                        let l = c.fns.get_mut(k).unwrap().loops.get_mut(o).unwrap();
                        l.text.push_str(line);
                        l.text.push('\n');
                    }
                    Sec::Anchor(k, i) => {
                        let a = &mut c.fns.get_mut(k).unwrap().anchors[*i];
                        a.text.push_str(line);
                        a.text.push('\n');
                    }
                    Sec::Closure(k, o) => {
                        let l = c.fns.get_mut(k).unwrap().closures.get_mut(o).unwrap();
                        l.push_str(line);
                        l.push('\n');
                    }
                    Sec::Items(k) => {
                        let s = c.traits.get_mut(k).unwrap();
                        s.push_str(line);
                        s.push('\n');
                    }
                    Sec::Module(k) => {
                        let s = c.modules.get_mut(k).unwrap();
                        s.push_str(line);
                        s.push('\n');
                    }
                }
            }
        }
    }
    c
}

// ---------------------------------------------------------------- cfg evaluation

fn cfg_eval(meta: &Meta, feats: &BTreeSet<String>) -> bool {
    match meta {
        Meta::Path(p) => {
            if p.is_ident("test") {
                false
            } else {
                false
            }
        }
        Meta::NameValue(nv) => {
            if nv.path.is_ident("feature") {
                if let Expr::Lit(ExprLit { lit: Lit::Str(s), .. }) = &nv.value {
                    return feats.contains(&s.value());
                }
            }
            false
        }
        Meta::List(l) => {
            let inner: Punctuated<Meta, Token![,]> =
                l.parse_args_with(Punctuated::parse_terminated).unwrap_or_default();
            if l.path.is_ident("all") {
                inner.iter().all(|m| cfg_eval(m, feats))
            } else if l.path.is_ident("any") {
                inner.iter().any(|m| cfg_eval(m, feats))
            } else if l.path.is_ident("not") {
                !inner.iter().all(|m| cfg_eval(m, feats))
            } else {
                false
            }
        }
    }
}

/// returns (keep_item, remaining attrs)
fn filter_attrs(attrs: &mut Vec<Attribute>, feats: &BTreeSet<String>, log: &mut Vec<String>) -> bool {
    let mut keep = true;
    let mut out = vec![];
    for a in attrs.drain(..) {
        let name = a.path().segments.last().map(|s| s.ident.to_string()).unwrap_or_default();
        match name.as_str() {
            "cfg" => {
                if let Meta::List(l) = &a.meta {
                    if let Ok(m) = l.parse_args::<Meta>() {
                        if !cfg_eval(&m, feats) {
                            keep = false;
                        }
                        log.push(format!("N12 cfg resolved: {} -> {}", l.tokens, cfg_eval(&m, feats)));
                    }
                }
            }
            "cfg_attr" => {
                // only used for serde derives, which are dropped with the serde feature
            }
            "doc" | "must_use" | "inline" | "allow" | "deprecated" | "warn" | "deny" => {}
            _ => out.push(a),
        }
    }
    *attrs = out;
    keep
}

// ---------------------------------------------------------------- rewriting visitor

struct Rw<'a> {
    feats: &'a BTreeSet<String>,
    log: Vec<String>,
    lits: &'a mut BTreeMap<String, Vec<u8>>, // const name -> bytes
    standin_crates: &'a BTreeSet<String>,
    asref_key_methods: &'a BTreeSet<String>,
    dyn_params: Vec<BTreeSet<String>>,     // per fn: params of type &mut dyn _
    bufmut_params: Vec<BTreeSet<String>>,  // per fn: params of type &mut BytesMut / &mut Vec<u8>
    str_params: Vec<BTreeSet<String>>,     // per fn: params of type &str
    mutslice_params: Vec<BTreeSet<String>>, // per fn: params of type &mut [u8]
    closure_ctr: usize,
    file: String,
    const_values: &'a BTreeMap<String, u64>, // extract.json "const_values": integer constants of dependencies (N15)
    n16: usize,
    err_ctx: usize,
    local_str_newtypes: BTreeSet<String>,
}

/// N15: value of a constant integer expression made of literals, `+`/`-`/`*`, parentheses and the constants of the table
fn const_eval(e: &Expr, table: &BTreeMap<String, u64>) -> Option<u64> {
    match e {
        Expr::Lit(l) => match &l.lit { Lit::Int(i) => i.base10_parse::<u64>().ok(), _ => None },
        Expr::Paren(p) => const_eval(&p.expr, table),
        Expr::Path(p) => p.path.segments.last().and_then(|s| table.get(&s.ident.to_string()).cloned()),
        Expr::Binary(b) => {
            let l = const_eval(&b.left, table)?;
            let r = const_eval(&b.right, table)?;
            match b.op {
                BinOp::Add(_) => l.checked_add(r),
                BinOp::Sub(_) => l.checked_sub(r),
                BinOp::Mul(_) => l.checked_mul(r),
                _ => None,
            }
        }
        _ => None,
    }
}

fn lit_const_name(bytes: &[u8]) -> String {
    let printable = bytes.iter().all(|b| b.is_ascii_alphanumeric() || *b == b'_');
    if printable && !bytes.is_empty() {
        format!("VP_B_{}", String::from_utf8_lossy(bytes))
    } else {
        let mut s = String::from("VP_BX");
        for b in bytes {
            s.push_str(&format!("_{:02x}", b));
        }
        s
    }
}

impl<'a> Rw<'a> {
    fn visit_expr_inner(&mut self, e: &mut Expr) {
        // N15: a dependency constant named through its crate path (`alloy_rlp::EMPTY_STRING_CODE`) becomes its value
        if let Expr::Path(p) = &*e {
            if p.path.segments.len() >= 2 {
                let first = p.path.segments.first().unwrap().ident.to_string();
                let last = p.path.segments.last().unwrap().ident.to_string();
                if (first == "alloy_rlp" || self.standin_crates.contains(&first)) && last.chars().all(|c| c.is_ascii_uppercase() || c.is_ascii_digit() || c == '_') {
                    if let Some(v) = self.const_values.get(&last) {
                        self.log.push(format!("N15 dependency constant `{}` -> {}", p.to_token_stream(), v));
                        let lit = proc_macro2::Literal::u64_unsuffixed(*v);
                        *e = parse_quote!(#lit);
                        return;
                    }
                }
            }
        }
        // N4 (string literal at key position) must look at the un-rewritten call first
        if let Expr::MethodCall(mc) = e {
            let mname = mc.method.to_string();
            if self.asref_key_methods.contains(&mname) {
                if let Some(Expr::Lit(ExprLit { lit: Lit::Str(s), .. })) = mc.args.first() {
                    let bytes = s.value().into_bytes();
                    let np = self.lit_path(bytes, &format!("str key argument of .{}()", mname));
                    *mc.args.first_mut().unwrap() = np;
                }
            }
        }
        visit_mut::visit_expr_mut(self, e);
        // N4 (continued): a byte-string literal is an array in the source and a `&'static [u8]` constant here; `.as_slice()` on
        // it is the identity (and `<[u8]>::as_slice` is unstable)
        if let Expr::MethodCall(mc) = e {
            if mc.method == "as_slice" && mc.args.is_empty() {
                if let Expr::Path(rp) = &*mc.receiver {
                    if rp.path.segments.last().map(|sg| sg.ident.to_string().starts_with("VP_B")).unwrap_or(false) {
                        self.log.push("N4 <byte-string constant>.as_slice() -> the constant".to_string());
                        let r = (*mc.receiver).clone();
                        *e = r;
                        return;
                    }
                }
            }
        }
        match e {
            Expr::Match(m) => {
                if let Some(n) = self.try_match_to_if(m) {
                    *e = n;
                }
            }
            Expr::Lit(ExprLit { lit: Lit::ByteStr(b), .. }) => {
                let v = b.value();
                *e = self.lit_path(v, "expression");
            }
            Expr::Macro(em) => {
                let name = em.mac.path.segments.last().map(|s| s.ident.to_string()).unwrap_or_default();
                if name == "matches" {
                    // matches!(scrutinee, A | B | C)
                    struct MArgs {
                        e: Expr,
                        p: Pat,
                    }
                    impl parse::Parse for MArgs {
                        fn parse(input: parse::ParseStream) -> Result<Self> {
                            let e: Expr = input.parse()?;
                            input.parse::<Token![,]>()?;
                            let p = Pat::parse_multi_with_leading_vert(input)?;
                            Ok(MArgs { e, p })
                        }
                    }
                    if let Ok(a) = em.mac.parse_body::<MArgs>() {
                        if let Expr::Path(ep) = &a.e {
                            if let Some(id) = ep.path.get_ident() {
                                if let Some(c) = self.pat_to_cond(id, &a.p) {
                                    self.log.push(format!("N1 matches!({}, ..) -> disjunction of equalities", id));
                                    *e = parse_quote!((#c));
                                }
                            }
                        }
                    }
                } else if name == "write" {
                    // N6: write!(f, "{}", x) -> crate::sp::vp_write_display(f, &x)
                    let parsed: Result<Punctuated<Expr, Token![,]>> = em.mac.parse_body_with(Punctuated::parse_terminated);
                    if let Ok(mut args) = parsed {
                        // macro arguments are opaque tokens for the visitor: normalise them explicitly
                        for a in args.iter_mut() {
                            self.visit_expr_mut(a);
                        }
                        // holes with a name and/or a lower-hex spec: write!(f, "0x{a:02x}{:x}", b) -- `{}` / `{name}` take a string-like
                        // argument, `{:x}` / `{:02x}` / `{name:x}` / `{name:02x}` a `u8`; anything else is left alone (Verus rejects it)
                        if args.len() >= 2 {
                            if let Expr::Lit(ExprLit { lit: Lit::Str(fs), .. }) = &args[1] {
                                let fmt = fs.value();
                                if let Some(pieces) = parse_fmt_pieces(&fmt) {
                                    let special = pieces.iter().any(|p| matches!(p, FmtPiece::Hole { name, spec } if name.is_some() || !spec.is_empty()));
                                    let n_pos = pieces.iter().filter(|p| matches!(p, FmtPiece::Hole { name: None, .. })).count();
                                    if special && n_pos == args.len() - 2 {
                                        let f = &args[0];
                                        let mut parts: Vec<Expr> = vec![];
                                        let mut next = 2;
                                        for pc in &pieces {
                                            match pc {
                                                FmtPiece::Lit(l) => {
                                                    let l = LitStr::new(l, Span::call_site());
                                                    parts.push(parse_quote!(#l));
                                                }
                                                FmtPiece::Hole { name, spec } => {
                                                    let a: Expr = match name {
                                                        Some(n) => {
                                                            let id = format_ident!("{}", n);
                                                            parse_quote!(#id)
                                                        }
                                                        None => {
                                                            let a = args[next].clone();
                                                            next += 1;
                                                            a
                                                        }
                                                    };
                                                    if spec.is_empty() {
                                                        parts.push(parse_quote!(crate::sp::VpAsStr::vp_as_str(&#a)));
                                                    } else {
                                                        let w: usize = if spec == "02x" { 2 } else { 0 };
                                                        parts.push(parse_quote!(crate::sp::VpAsStr::vp_as_str(&crate::sp::vp_hex_u8(#a, #w))));
                                                    }
                                                }
                                            }
                                        }
                                        self.log.push(format!("N6 write!({}, {:?}, ..) -> vp_write_parts (named / lower-hex holes)", f.to_token_stream(), fmt));
                                        *e = parse_quote!(crate::sp::vp_write_parts(#f, &[#(#parts),*]));
                                        return;
                                    }
                                }
                            }
                        }
                        // general form: write!(f, "lit{}lit{}..", a, b, ..) with only `{}` holes and string-like arguments
                        // -> vp_write_parts(f, &[ "lit", a, "lit", b, .. ])
                        if args.len() >= 3 {
                            if let Expr::Lit(ExprLit { lit: Lit::Str(fs), .. }) = &args[1] {
                                let fmt = fs.value();
                                let pieces: Vec<&str> = fmt.split("{}").collect();
                                if fmt != "{}" && pieces.len() == args.len() - 1 && !fmt.replace("{}", "").contains('{') {
                                    let f = &args[0];
                                    let mut parts: Vec<Expr> = vec![];
                                    for (i, lit) in pieces.iter().enumerate() {
                                        if !lit.is_empty() {
                                            let l = LitStr::new(lit, Span::call_site());
                                            parts.push(parse_quote!(#l));
                                        }
                                        if i + 2 < args.len() {
                                            let a = &args[i + 2];
                                            parts.push(parse_quote!(crate::sp::VpAsStr::vp_as_str(&#a)));
                                        }
                                    }
                                    self.log.push(format!("N6 write!({}, {:?}, ..) -> vp_write_parts", f.to_token_stream(), fmt));
                                    *e = parse_quote!(crate::sp::vp_write_parts(#f, &[#(#parts),*]));
                                    return;
                                }
                            }
                        }
                        if args.len() == 3 {
                            if let Expr::Lit(ExprLit { lit: Lit::Str(fs), .. }) = &args[1] {
                                if fs.value() == "{}" {
                                    let f = &args[0];
                                    let x = &args[2];
                                    self.log.push(format!("N6 write!({}, \"{{}}\", ..) -> vp_write_display", f.to_token_stream()));
                                    *e = parse_quote!(crate::sp::vp_write_display(#f, &#x));
                                }
                            }
                        }
                    }
                } else if name == "format" {
                    *e = self.rewrite_format(&em.mac);
                } else if name == "unreachable" {
                    // keep: Verus understands unreachable!() as assert(false)
                }
            }
            Expr::MethodCall(mc) => {
                let mname = mc.method.to_string();
                // N2 unsizing to &mut dyn BufMut
                if mname == "encode" && mc.args.len() == 1 {
                    let arg = mc.args.first().unwrap().clone();
                    let dynp = self.dyn_params.last().cloned().unwrap_or_default();
                    let bmp = self.bufmut_params.last().cloned().unwrap_or_default();
                    match &arg {
                        Expr::Reference(r) if r.mutability.is_some() => {
                            let inner = &r.expr;
                            *mc.args.first_mut().unwrap() = parse_quote!(crate::sp::VpDyn::vp_dyn(&mut #inner));
                            self.log.push(format!("N2 .encode(&mut {}) -> vp_dyn", inner.to_token_stream()));
                        }
                        Expr::Path(p) => {
                            if let Some(id) = p.path.get_ident() {
                                let n = id.to_string();
                                if bmp.contains(&n) && !dynp.contains(&n) {
                                    *mc.args.first_mut().unwrap() = parse_quote!(crate::sp::VpDyn::vp_dyn(#id));
                                    self.log.push(format!("N2 .encode({}) -> vp_dyn", n));
                                }
                            }
                        }
                        _ => {}
                    }
                }
                // N13: <&str parameter>.len() -> shim with a byte-length contract (vstd's own `str::len` entry carries no
                // usable postcondition in this version)
                if mname == "len" && mc.args.is_empty() {
                    if let Expr::Path(p) = &*mc.receiver {
                        if let Some(id) = p.path.get_ident() {
                            if self.str_params.last().map(|s| s.contains(&id.to_string())).unwrap_or(false) {
                                self.log.push(format!("N13 {}.len() (a &str parameter) -> crate::sp::vp_str_len({})", id, id));
                                *e = parse_quote!(crate::sp::vp_str_len(#id));
                                return;
                            }
                        }
                    }
                }
                // N13: x.hash(state) -> shim (the Hasher trait cannot carry a ghost trace in this Verus)
                if mname == "hash" && mc.args.len() == 1 {
                    let recv = (*mc.receiver).clone();
                    let st = mc.args.first().unwrap().clone();
                    self.log.push(format!("N13 {}.hash({}) -> crate::sp::vp_hash(&.., ..)", recv.to_token_stream(), st.to_token_stream()));
                    *e = parse_quote!(crate::sp::vp_hash(&#recv, #st));
                    return;
                }
                // N13: <&mut [u8] parameter>.as_ref() -> shim
                if mname == "as_ref" && mc.args.is_empty() {
                    if let Expr::Path(p) = &*mc.receiver {
                        if let Some(id) = p.path.get_ident() {
                            if self.mutslice_params.last().map(|s| s.contains(&id.to_string())).unwrap_or(false) {
                                self.log.push(format!("N13 {}.as_ref() (a &mut [u8] parameter) -> crate::sp::vp_mut_slice_as_ref({})", id, id));
                                *e = parse_quote!(crate::sp::vp_mut_slice_as_ref(#id));
                                return;
                            }
                        }
                    }
                }
                // N13: String::from_utf8_lossy(x).to_string() -> shim (Cow<str> cannot be specified)
                if mname == "to_string" && mc.args.is_empty() {
                    if let Expr::Call(c) = &*mc.receiver {
                        if let Expr::Path(p) = &*c.func {
                            if p.path.segments.last().map(|s| s.ident == "from_utf8_lossy").unwrap_or(false) && c.args.len() == 1 {
                                let a = c.args.first().unwrap().clone();
                                self.log.push("N13 String::from_utf8_lossy(..).to_string() -> crate::sp::vp_lossy_string(..)".to_string());
                                *e = parse_quote!(crate::sp::vp_lossy_string(#a));
                                return;
                            }
                        }
                    }
                }
                // N10 constructor as function value
                if (mname == "map" || mname == "map_err" || mname == "and_then") && mc.args.len() == 1 {
                    if let Expr::Path(p) = mc.args.first().unwrap() {
                        if p.path.segments.len() >= 2 {
                            let last = p.path.segments.last().unwrap().ident.to_string();
                            if last.chars().next().map(|c| c.is_ascii_uppercase()).unwrap_or(false) {
                                let path = p.path.clone();
                                self.log.push(format!("N10 constructor as fn value {} -> closure", path.to_token_stream()));
                                *mc.args.first_mut().unwrap() = parse_quote!(|vp_x| #path(vp_x));
                            }
                        }
                    }
                }
            }
            Expr::Closure(c) => {
                for inp in c.inputs.iter_mut() {
                    if let Pat::Wild(_) = inp {
                        self.closure_ctr += 1;
                        let id = format_ident!("_vp_u{}", self.closure_ctr);
                        *inp = parse_quote!(#id);
                        self.log.push("N11 closure parameter `_` renamed".to_string());
                    }
                }
            }
            Expr::ForLoop(fl) => {
                // N5
                if let Expr::Reference(r) = &*fl.expr {
                    if r.mutability.is_none() {
                        let inner = &r.expr;
                        self.log.push(format!("N5 for .. in &{} -> .iter()", inner.to_token_stream()));
                        let ne: Expr = parse_quote!(#inner.iter());
                        *fl.expr = ne;
                    }
                }
            }
            _ => {}
        }
    }

    /// N16: slice patterns are not supported by Verus.  For a `let` over an array / slice of `Copy` elements the pattern
    /// `[a, _, .., z]` is the same as indexing from the front and from the back (a non-`Copy` element type then fails to
    /// compile: tool error, UNDECIDED).  Only patterns with `..` are rewritten (an irrefutable `let` with `..` exists for
    /// arrays only, whose length the type fixes; a pattern without `..` also asserts the length, which indexing would not).
    fn expand_slice_let(&mut self, s: &Stmt) -> Option<Vec<Stmt>> {
        let Stmt::Local(l) = s else { return None };
        let Pat::Slice(ps) = &l.pat else { return None };
        let init = l.init.as_ref()?;
        if init.diverge.is_some() || !l.attrs.is_empty() {
            return None;
        }
        let mut rest_at = None;
        for (i, p) in ps.elems.iter().enumerate() {
            match p {
                Pat::Ident(pi) if pi.by_ref.is_none() && pi.subpat.is_none() => {}
                Pat::Wild(_) => {}
                Pat::Rest(_) if rest_at.is_none() => rest_at = Some(i),
                _ => return None,
            }
        }
        let rest_at = rest_at?;
        let n = ps.elems.len();
        self.n16 += 1;
        let tmp = format_ident!("vp_arr{}", self.n16);
        let e = &init.expr;
        let mut out: Vec<Stmt> = vec![parse_quote!(let #tmp = #e;)];
        for (i, p) in ps.elems.iter().enumerate() {
            if let Pat::Ident(pi) = p {
                let id = &pi.ident;
                let m = &pi.mutability;
                if i < rest_at {
                    out.push(parse_quote!(let #m #id = #tmp[#i];));
                } else {
                    let back = n - i;
                    out.push(parse_quote!(let #m #id = #tmp[#tmp.len() - #back];));
                }
            }
        }
        self.log.push(format!("N16 let {} = .. -> indexing lets", l.pat.to_token_stream()));
        Some(out)
    }

    /// N17: `M.entry(K).or_insert(V);` / `M.entry(K).or_insert_with(|| E);` as a statement whose result is discarded is, by the
    /// definition of the entry API, "insert unless the key is present" (`V` is evaluated in any case, `E` only when the key is
    /// absent; `K` once).  Verus has no model of `Entry` (it would have to return `&mut V`).
    fn expand_entry_stmt(&mut self, s: &Stmt) -> Option<Stmt> {
        let Stmt::Expr(Expr::MethodCall(outer), Some(_)) = s else { return None };
        let m = outer.method.to_string();
        if !(m == "or_insert" || m == "or_insert_with") || outer.args.len() != 1 {
            return None;
        }
        let Expr::MethodCall(inner) = &*outer.receiver else { return None };
        if inner.method != "entry" || inner.args.len() != 1 {
            return None;
        }
        let recv = &inner.receiver;
        let k = inner.args.first().unwrap();
        let a = outer.args.first().unwrap();
        self.log.push(format!("N17 {}.entry(..).{}(..); -> insert unless the key is present", recv.to_token_stream(), m));
        if m == "or_insert" {
            Some(parse_quote!({
                let vp_ek = #k;
                let vp_ev = #a;
                if !#recv.contains_key(&vp_ek) {
                    #recv.insert(vp_ek, vp_ev);
                }
            };))
        } else {
            let Expr::Closure(c) = a else { return None };
            if !c.inputs.is_empty() {
                return None;
            }
            let body = &c.body;
            Some(parse_quote!({
                let vp_ek = #k;
                if !#recv.contains_key(&vp_ek) {
                    let vp_ev = #body;
                    #recv.insert(vp_ek, vp_ev);
                }
            };))
        }
    }

    fn lit_path(&mut self, bytes: Vec<u8>, why: &str) -> Expr {
        let name = lit_const_name(&bytes);
        self.log.push(format!("N4 literal {:?} -> crate::code::{} ({})", String::from_utf8_lossy(&bytes), name, why));
        self.lits.insert(name.clone(), bytes);
        let id = format_ident!("{}", name);
        parse_quote!(crate::code::#id)
    }

    fn pat_to_cond(&mut self, scrut: &Ident, p: &Pat) -> Option<Expr> {
        match p {
            Pat::Lit(PatLit { lit: Lit::ByteStr(b), .. }) => {
                let e = self.lit_path(b.value(), "pattern");
                Some(parse_quote!(#scrut == #e))
            }
            Pat::Lit(PatLit { lit: Lit::Str(s), .. }) => Some(parse_quote!(#scrut == #s)),
            Pat::Ident(pi) if pi.by_ref.is_none() && pi.subpat.is_none() => {
                let n = pi.ident.to_string();
                if n.chars().all(|c| c.is_ascii_uppercase() || c.is_ascii_digit() || c == '_') {
                    let id = &pi.ident;
                    Some(parse_quote!(#scrut == #id))
                } else {
                    None
                }
            }
            Pat::Path(pp) => {
                let p = &pp.path;
                let last = p.segments.last()?.ident.to_string();
                if last.chars().all(|c| c.is_ascii_uppercase() || c.is_ascii_digit() || c == '_') {
                    Some(parse_quote!(#scrut == #p))
                } else {
                    None
                }
            }
            Pat::Or(po) => {
                let mut acc: Option<Expr> = None;
                for c in &po.cases {
                    let e = self.pat_to_cond(scrut, c)?;
                    acc = Some(match acc {
                        None => e,
                        Some(a) => parse_quote!(#a || #e),
                    });
                }
                acc
            }
            _ => None,
        }
    }

    /// N1: literal / const-path matches -> if chains
    fn try_match_to_if(&mut self, m: &ExprMatch) -> Option<Expr> {
        // eligible only if at least one arm is a byte-string/str literal or const path and
        // all arms are literal / const / or / wild without guards
        let mut has_lit = false;
        for arm in &m.arms {
            if arm.guard.is_some() {
                return None;
            }
            fn ok(p: &Pat, has_lit: &mut bool) -> bool {
                match p {
                    Pat::Lit(PatLit { lit: Lit::ByteStr(_), .. }) | Pat::Lit(PatLit { lit: Lit::Str(_), .. }) => {
                        *has_lit = true;
                        true
                    }
                    Pat::Ident(pi) => {
                        let n = pi.ident.to_string();
                        let c = n.chars().all(|c| c.is_ascii_uppercase() || c.is_ascii_digit() || c == '_');
                        if c {
                            *has_lit = true;
                        }
                        c
                    }
                    Pat::Path(_) => {
                        *has_lit = true;
                        true
                    }
                    Pat::Or(po) => po.cases.iter().all(|c| ok(c, has_lit)),
                    Pat::Wild(_) => true,
                    _ => false,
                }
            }
            if !ok(&arm.pat, &mut has_lit) {
                return None;
            }
        }
        if !has_lit {
            return None;
        }
        let scrut: Ident = format_ident!("vp_m");
        let mut chain: Option<Expr> = None;
        // build from the last arm backwards
        let mut arms: Vec<&Arm> = m.arms.iter().collect();
        let last = arms.pop()?;
        let tail_body = &last.body;
        let mut tail: Expr = if matches!(last.pat, Pat::Wild(_)) {
            parse_quote!({ #tail_body })
        } else {
            return None; // non-exhaustive literal match cannot occur on slices
        };
        for arm in arms.into_iter().rev() {
            let cond = self.pat_to_cond(&scrut, &arm.pat)?;
            let body = &arm.body;
            let else_e = tail;
            tail = match &else_e {
                Expr::If(_) => parse_quote!(if #cond { #body } else #else_e),
                Expr::Block(_) => parse_quote!(if #cond { #body } else #else_e),
                _ => parse_quote!(if #cond { #body } else { #else_e }),
            };
            chain = Some(tail.clone());
        }
        let chain = chain.unwrap_or(tail);
        let e = &m.expr;
        self.log.push(format!("N1 match on `{}` -> if-chain ({} arms) in {}", e.to_token_stream(), m.arms.len(), self.file));
        Some(parse_quote!({ let #scrut = #e; #chain }))
    }
}

fn first_seg(p: &Path) -> Option<String> {
    p.segments.first().map(|s| s.ident.to_string())
}

impl<'a> VisitMut for Rw<'a> {
    fn visit_type_array_mut(&mut self, t: &mut TypeArray) {
        // N15: an array length that is constant arithmetic over dependency constants becomes its value (inside `verus!`
        // the arithmetic would be typed `int`)
        if !matches!(&t.len, Expr::Lit(_)) {
            if let Some(v) = const_eval(&t.len, self.const_values) {
                self.log.push(format!("N15 array length `{}` -> {}", t.len.to_token_stream(), v));
                let lit = proc_macro2::Literal::u64_unsuffixed(v);
                t.len = parse_quote!(#lit);
            }
        }
        visit_mut::visit_type_array_mut(self, t);
    }
    fn visit_expr_repeat_mut(&mut self, r: &mut ExprRepeat) {
        if !matches!(&*r.len, Expr::Lit(_)) {
            if let Some(v) = const_eval(&r.len, self.const_values) {
                self.log.push(format!("N15 array length `{}` -> {}", r.len.to_token_stream(), v));
                let lit = proc_macro2::Literal::u64_unsuffixed(v);
                *r.len = parse_quote!(#lit);
            }
        }
        visit_mut::visit_expr_repeat_mut(self, r);
    }
    fn visit_item_fn_mut(&mut self, f: &mut ItemFn) {
        self.push_params(&f.sig);
        visit_mut::visit_item_fn_mut(self, f);
        self.pop_params();
    }
    fn visit_impl_item_fn_mut(&mut self, f: &mut ImplItemFn) {
        self.push_params(&f.sig);
        visit_mut::visit_impl_item_fn_mut(self, f);
        self.pop_params();
    }
    fn visit_trait_item_fn_mut(&mut self, f: &mut TraitItemFn) {
        self.push_params(&f.sig);
        visit_mut::visit_trait_item_fn_mut(self, f);
        self.pop_params();
    }

    // a qualified path `<T as dep::Trait>::Item`: the trait part is the first `position` segments; prefixing the path
    // (crate -> crate::code, dep -> crate::standin::dep) moves that boundary
    fn visit_type_path_mut(&mut self, tp: &mut TypePath) {
        let before = tp.path.segments.len();
        visit_mut::visit_type_path_mut(self, tp);
        if let Some(q) = tp.qself.as_mut() {
            q.position += tp.path.segments.len() - before;
        }
    }
    fn visit_expr_path_mut(&mut self, ep: &mut ExprPath) {
        let before = ep.path.segments.len();
        visit_mut::visit_expr_path_mut(self, ep);
        if let Some(q) = ep.qself.as_mut() {
            q.position += ep.path.segments.len() - before;
        }
    }

    fn visit_path_mut(&mut self, p: &mut Path) {
        visit_mut::visit_path_mut(self, p);
        if p.leading_colon.is_none() {
            if let Some(f) = first_seg(p) {
                if f == "crate" && p.segments.len() >= 2 && p.segments[1].ident == "code" {
                    // already rewritten (generated literal constant)
                } else if f == "crate" {
                    // crate root of the extracted text is the module `code`
                    let rest: Vec<PathSegment> = p.segments.iter().skip(1).cloned().collect();
                    let mut np: Path = parse_quote!(crate::code);
                    for s in rest {
                        np.segments.push(s);
                    }
                    *p = np;
                } else if p.segments.len() >= 2 && self.standin_crates.contains(&f) {
                    let rest: Vec<PathSegment> = p.segments.iter().cloned().collect();
                    let mut np: Path = parse_quote!(crate::standin);
                    for s in rest {
                        np.segments.push(s);
                    }
                    self.log.push(format!("N7 dependency path {} -> crate::standin::{}", f, f));
                    *p = np;
                }
            }
        }
    }

    fn visit_item_use_mut(&mut self, u: &mut ItemUse) {
        // rewrite the root of use trees: crate:: -> crate::code:: ; stand-in crates
        fn root_name(t: &UseTree) -> Option<String> {
            match t {
                UseTree::Path(p) => Some(p.ident.to_string()),
                UseTree::Name(n) => Some(n.ident.to_string()),
                UseTree::Rename(r) => Some(r.ident.to_string()),
                _ => None,
            }
        }
        if u.leading_colon.is_none() {
            if let Some(r) = root_name(&u.tree) {
                if r == "crate" {
                    if let UseTree::Path(p) = &u.tree {
                        let inner = (*p.tree).clone();
                        u.tree = parse_quote!(crate::code::#inner);
                    }
                } else if self.standin_crates.contains(&r) {
                    let inner = u.tree.clone();
                    u.tree = parse_quote!(crate::standin::#inner);
                    self.log.push(format!("N7 use of dependency crate `{}` -> crate::standin::{}", r, r));
                }
            }
        }
    }

    fn visit_expr_mut(&mut self, e: &mut Expr) {
        // error position: the argument of `Err(..)`, or of `map_err` / `ok_or` / `ok_or_else` / `expect` (N6 may replace a
        // `format!` there by an arbitrary string: error texts are not part of any property)
        let errpos = match &*e {
            Expr::Call(c) => matches!(&*c.func, Expr::Path(p) if p.path.segments.last().map(|sg| sg.ident == "Err").unwrap_or(false)),
            Expr::MethodCall(mc) => ["map_err", "ok_or", "ok_or_else", "expect"].contains(&mc.method.to_string().as_str()),
            _ => false,
        };
        if errpos {
            self.err_ctx += 1;
        }
        self.visit_expr_inner(e);
        if errpos {
            self.err_ctx -= 1;
        }
    }

    fn visit_stmt_mut(&mut self, s: &mut Stmt) {
        // statement macros: write!/format! etc. handled via expr; N12 cfg on statements
        visit_mut::visit_stmt_mut(self, s);
    }

    fn visit_block_mut(&mut self, b: &mut Block) {
        // N12: resolve cfg attributes on statements
        let feats = self.feats;
        let mut out = vec![];
        for mut s in b.stmts.drain(..) {
            let keep = match &mut s {
                Stmt::Expr(e, _) => {
                    let mut dummy = vec![];
                    let attrs = expr_attrs_mut(e).unwrap_or(&mut dummy);
                    filter_attrs(attrs, feats, &mut self.log)
                }
                Stmt::Local(l) => filter_attrs(&mut l.attrs, feats, &mut self.log),
                Stmt::Macro(m) => filter_attrs(&mut m.attrs, feats, &mut self.log),
                Stmt::Item(_) => true,
            };
            // N19: a local `#[derive(serde::Deserialize)] struct X<'a>(Cow<'a, str>);` (a transparent new-type around a string: its
            // derived impl forwards to the string's) is dropped, and `let X(raw) = E;` becomes `let raw: String = E;`
            if let Stmt::Item(Item::Struct(st)) = &s {
                let derives_de = st.attrs.iter().any(|a| a.path().is_ident("derive") && a.meta.to_token_stream().to_string().contains("Deserialize"));
                if derives_de {
                    if let Fields::Unnamed(fu) = &st.fields {
                        if fu.unnamed.len() == 1 {
                            let ty = norm(&fu.unnamed.first().unwrap().ty.to_token_stream().to_string());
                            if ty.contains("Cow<") && ty.contains("str>") || ty == "String" {
                                self.local_str_newtypes.insert(st.ident.to_string());
                                self.log.push(format!("N19 local new-type {} around a string dropped", st.ident));
                                continue;
                            }
                        }
                    }
                }
            }
            if let Stmt::Local(l) = &mut s {
                if let Pat::TupleStruct(pts) = &l.pat {
                    let nm = pts.path.segments.last().map(|sg| sg.ident.to_string()).unwrap_or_default();
                    if self.local_str_newtypes.contains(&nm) && pts.elems.len() == 1 {
                        if let Pat::Ident(pi) = pts.elems.first().unwrap() {
                            let id = pi.ident.clone();
                            l.pat = Pat::Type(PatType { attrs: vec![], pat: Box::new(Pat::Ident(PatIdent { attrs: vec![], by_ref: None, mutability: None, ident: id.clone(), subpat: None })), colon_token: Default::default(), ty: Box::new(parse_quote!(String)) });
                            self.log.push(format!("N19 let {}(..) = .. -> let {}: String = ..", nm, id));
                        }
                    }
                }
            }
            if keep {
                // N16: `let [a, b, .., y, z] = E;` (identifiers, `_`, at most one `..`) -> one indexing `let` per binding
                if let Some(mut expanded) = self.expand_slice_let(&s) {
                    out.append(&mut expanded);
                } else if let Some(ns) = self.expand_entry_stmt(&s) {
                    out.push(ns);
                } else {
                    out.push(s);
                }
            }
        }
        b.stmts = out;
        visit_mut::visit_block_mut(self, b);
    }

    fn visit_item_trait_mut(&mut self, t: &mut ItemTrait) {
        // N9: marker supertraits that Verus does not model (no run-time meaning)
        let before = t.supertraits.len();
        let kept: Punctuated<TypeParamBound, Token![+]> = t
            .supertraits
            .iter()
            .filter(|b| match b {
                TypeParamBound::Trait(tb) => {
                    let n = tb.path.segments.last().map(|s| s.ident.to_string()).unwrap_or_default();
                    !(n == "Unpin" || n == "Debug")
                }
                _ => true,
            })
            .cloned()
            .collect();
        if kept.len() != before {
            self.log.push(format!("N9 trait {}: marker supertraits Unpin/Debug dropped", t.ident));
        }
        t.supertraits = kept;
        visit_mut::visit_item_trait_mut(self, t);
    }
    fn visit_visibility_mut(&mut self, v: &mut Visibility) {
        // pub(crate)/pub(super) -> pub: visibility has no run-time meaning (N8)
        if let Visibility::Restricted(_) = v {
            *v = parse_quote!(pub);
        }
    }
    fn visit_fields_named_mut(&mut self, f: &mut FieldsNamed) {
        for fld in f.named.iter_mut() {
            fld.vis = parse_quote!(pub);
        }
        visit_mut::visit_fields_named_mut(self, f);
    }
}

fn expr_attrs_mut(e: &mut Expr) -> Option<&mut Vec<Attribute>> {
    Some(match e {
        Expr::Call(x) => &mut x.attrs,
        Expr::MethodCall(x) => &mut x.attrs,
        Expr::Try(x) => &mut x.attrs,
        Expr::Macro(x) => &mut x.attrs,
        Expr::If(x) => &mut x.attrs,
        Expr::Match(x) => &mut x.attrs,
        Expr::Block(x) => &mut x.attrs,
        Expr::Assign(x) => &mut x.attrs,
        Expr::Path(x) => &mut x.attrs,
        Expr::Return(x) => &mut x.attrs,
        Expr::ForLoop(x) => &mut x.attrs,
        Expr::While(x) => &mut x.attrs,
        _ => return None,
    })
}

impl<'a> Rw<'a> {
    fn push_params(&mut self, sig: &Signature) {
        let mut d = BTreeSet::new();
        let mut b = BTreeSet::new();
        let mut st = BTreeSet::new();
        let mut ms = BTreeSet::new();
        for a in &sig.inputs {
            if let FnArg::Typed(pt) = a {
                if let (Pat::Ident(pi), Type::Reference(r)) = (&*pt.pat, &*pt.ty) {
                    if r.mutability.is_some() {
                        if let Type::Slice(_) = &*r.elem {
                            ms.insert(pi.ident.to_string());
                        }
                    }
                }
                if let (Pat::Ident(pi), Type::Reference(r)) = (&*pt.pat, &*pt.ty) {
                    if r.mutability.is_none() {
                        if let Type::Path(tp) = &*r.elem {
                            if tp.path.is_ident("str") {
                                st.insert(pi.ident.to_string());
                            }
                        }
                    }
                }
                if let (Pat::Ident(pi), Type::Reference(r)) = (&*pt.pat, &*pt.ty) {
                    if r.mutability.is_some() {
                        match &*r.elem {
                            Type::TraitObject(_) => {
                                d.insert(pi.ident.to_string());
                            }
                            Type::Path(tp) => {
                                let l = tp.path.segments.last().map(|s| s.ident.to_string()).unwrap_or_default();
                                if l == "BytesMut" || l == "Vec" {
                                    b.insert(pi.ident.to_string());
                                }
                            }
                            _ => {}
                        }
                    }
                }
            }
        }
        self.dyn_params.push(d);
        self.bufmut_params.push(b);
        self.str_params.push(st);
        self.mutslice_params.push(ms);
    }
    fn pop_params(&mut self) {
        self.dyn_params.pop();
        self.bufmut_params.pop();
        self.str_params.pop();
        self.mutslice_params.pop();
    }

    /// N6
    fn rewrite_format(&mut self, mac: &Macro) -> Expr {
        let toks = mac.tokens.clone();
        let parsed: Result<Punctuated<Expr, Token![,]>> = mac.parse_body_with(Punctuated::parse_terminated);
        if let Ok(args) = parsed {
            if args.len() == 1 {
                if let Some(Expr::Lit(ExprLit { lit: Lit::Str(s), .. })) = args.first() {
                    let f = s.value();
                    // split into literal parts and {ident} holes
                    let mut parts: Vec<(bool, String)> = vec![];
                    let mut cur = String::new();
                    let mut ok = true;
                    let mut it = f.chars().peekable();
                    while let Some(ch) = it.next() {
                        if ch == '{' {
                            if it.peek() == Some(&'{') {
                                it.next();
                                cur.push('{');
                                continue;
                            }
                            let mut name = String::new();
                            let mut closed = false;
                            for c2 in it.by_ref() {
                                if c2 == '}' {
                                    closed = true;
                                    break;
                                }
                                name.push(c2);
                            }
                            if !closed || name.is_empty() || !name.chars().all(|c| c.is_alphanumeric() || c == '_') {
                                ok = false;
                                break;
                            }
                            if !cur.is_empty() {
                                parts.push((false, std::mem::take(&mut cur)));
                            }
                            parts.push((true, name));
                        } else if ch == '}' {
                            if it.peek() == Some(&'}') {
                                it.next();
                            }
                            cur.push('}');
                        } else {
                            cur.push(ch);
                        }
                    }
                    if !cur.is_empty() {
                        parts.push((false, cur));
                    }
                    if ok && parts.iter().any(|p| p.0) {
                        let mut pieces: Vec<Expr> = vec![];
                        for (hole, t) in &parts {
                            if *hole {
                                let id = format_ident!("{}", t);
                                pieces.push(parse_quote!(&#id));
                            } else {
                                let l = LitStr::new(t, Span::call_site());
                                pieces.push(parse_quote!(#l));
                            }
                        }
                        if pieces.len() == 1 {
                            pieces.insert(0, parse_quote!(""));
                        }
                        let mut acc: Expr = pieces[0].clone();
                        let n = pieces.len();
                        for (i, pc) in pieces.iter().enumerate().skip(1) {
                            acc = if i == n - 1 { parse_quote!(crate::sp::vp_str_cat(#acc, #pc)) } else { parse_quote!(&crate::sp::vp_str_cat(#acc, #pc)) };
                        }
                        self.log.push(format!("N6 format!({}) -> vp_str_cat chain", toks));
                        return acc;
                    }
                }
            }
        }
        // positional holes: format!("lit{}lit{}", a, b) with only `{}` holes -> the same chain
        if let Ok(args) = mac.parse_body_with(Punctuated::<Expr, Token![,]>::parse_terminated) {
            if args.len() >= 2 {
                if let Some(Expr::Lit(ExprLit { lit: Lit::Str(fs), .. })) = args.first() {
                    let f = fs.value();
                    let lits: Vec<&str> = f.split("{}").collect();
                    if lits.len() == args.len() && !f.replace("{}", "").contains('{') && !f.replace("{}", "").contains('}') {
                        let mut pieces: Vec<Expr> = vec![];
                        for (i, l) in lits.iter().enumerate() {
                            if !l.is_empty() {
                                let ls = LitStr::new(l, Span::call_site());
                                pieces.push(parse_quote!(#ls));
                            }
                            if i + 1 < args.len() {
                                let a = &args[i + 1];
                                pieces.push(parse_quote!(&#a));
                            }
                        }
                        if pieces.len() == 1 {
                            pieces.insert(0, parse_quote!(""));
                        }
                        let mut acc: Expr = pieces[0].clone();
                        let n = pieces.len();
                        for (i, pc) in pieces.iter().enumerate().skip(1) {
                            acc = if i == n - 1 { parse_quote!(crate::sp::vp_str_cat(#acc, #pc)) } else { parse_quote!(&crate::sp::vp_str_cat(#acc, #pc)) };
                        }
                        self.log.push(format!("N6 format!({}) -> vp_str_cat chain (positional holes)", toks));
                        return acc;
                    }
                }
            }
        }
        if self.err_ctx == 0 {
            // not an error text: an arbitrary string would over-approximate a VALUE, and a proof that fails on the
            // over-approximation says nothing about the code.
            // Verus would accept the macro and know nothing about its result, which is the same over-approximation: the call
            // below names a function that does not exist, so the body is rejected and dropped by the ladder.
            self.log.push(format!("N6 format!({}) outside an error position: not modelled (function UNDECIDED)", toks));
            return parse_quote!(crate::sp::vp_format_not_modelled_in_value_position());
        }
        self.log.push(format!("N6 format!({}) -> opaque error text", toks));
        parse_quote!(crate::sp::vp_opaque_string())
    }
}

// ---------------------------------------------------------------- marker planting

struct Planter<'a> {
    c: &'a mut Contracts,
    index: Vec<String>, // marker id -> text
    scope: Vec<String>, // current impl/trait key prefix
    drop_bodies: &'a BTreeSet<String>,
    keep_only: &'a Option<BTreeSet<String>>,
    nohint: &'a BTreeSet<String>,
    ext_types: &'a BTreeSet<String>,
    module: String,
    seen_fns: Vec<(String, usize)>, // key, source line
    file: String,
    lost: Vec<String>,
    fuzzy: Vec<String>,
    drop_module: bool, // every body of this module is dropped (fallback after an unresolved import in it)
    renamed: Vec<String>,
    shapes: Vec<(String, Vec<String>, usize, usize)>, // key, called names, closures in the body, closures with a contract
    locals: Vec<(String, Vec<(String, String)>)>,
    locals_baseline: &'a BTreeMap<String, Vec<(String, String)>>,
    skip_hints: &'a BTreeMap<String, BTreeSet<String>>,
    log: Vec<String>,
}

fn ty_key(t: &Type) -> String {
    match t {
        Type::Path(tp) => {
            // last segment ident, with generic args stripped
            tp.path.segments.last().map(|s| s.ident.to_string()).unwrap_or_default()
        }
        _ => norm(&t.to_token_stream().to_string()),
    }
}

fn trait_key(p: &Path) -> String {
    // last segment incl. generic args, normalised
    let s = p.segments.last().unwrap();
    norm(&s.to_token_stream().to_string())
}

impl<'a> Planter<'a> {
    fn marker(&mut self, text: String) -> usize {
        self.index.push(text);
        self.index.len() - 1
    }

    fn plant_in_body(&mut self, key0: &str, sig: &mut Signature, block: &mut Block, attrs: &mut Vec<Attribute>, has_body: bool) {
        // module-qualified key wins over the bare key
        let qkey = norm(&format!("{}::{}", self.module, key0));
        let key_s: String = if !self.module.is_empty() && (self.c.fns.contains_key(&qkey) || self.drop_bodies.contains(&qkey)) { qkey.clone() } else { key0.to_string() };
        let key: &str = &key_s;
        let line = sig.ident.span().start().line;
        self.seen_fns.push((key.to_string(), line));
        let doc = format!("@vp {}:{} {}", self.file, line, key);
        attrs.push(parse_quote!(#[doc = #doc]));
        // strip `const` (N9)
        if sig.constness.is_some() {
            sig.constness = None;
            self.log.push(format!("N9 const fn {} -> fn", key));
        }
        let dropb = self.drop_module || self.drop_bodies.contains(key) || self.drop_bodies.contains(&qkey)
            || self.keep_only.as_ref().map(|k| !k.contains(key) && !k.contains(&qkey)).unwrap_or(false);
        if dropb && has_body {
            // The contract of a function whose body is dropped is ASSUMED.  The body becomes a diverging loop rather than
            // `#[verifier::external_body]`: Verus walks body-less functions first when it orders solver contexts, and one
            // whose contract names a ghost trait-impl function of the crate drags the exec methods of that impl in front
            // of their own ghost definitions (DESIGN.md 11.4) -- other functions then fail for no semantic reason.
            *block = parse_quote!({ loop {} });
            attrs.push(parse_quote!(#[verifier::exec_allows_no_decreases_clause]));
            attrs.push(parse_quote!(#[doc = "@vp-body-dropped: contract assumed"]));
            self.log.push(format!("DROP body of {} (assumed contract)", key));
        }
        if has_body {
            let mut sc = ShapeCollector { calls: BTreeSet::new(), closures: 0 };
            sc.visit_block_mut(block);
            let nh = self.c.fns.get(key).map(|f| f.closures.keys().filter(|o| **o < 1000).count()).unwrap_or(0);
            self.shapes.push((key.to_string(), sc.calls.iter().cloned().collect(), sc.closures, nh));
        }
        let fc = match self.c.fns.get_mut(key) {
            Some(f) => f.clone(),
            None => return,
        };
        self.c.fns.get_mut(key).unwrap().used = true;
        for a in &fc.attrs {
            let ts: TokenStream = a.parse().expect("attr tokens");
            attrs.push(parse_quote!(#[verifier::#ts]));
        }
        // named return
        if let ReturnType::Type(_, ty) = &mut sig.output {
            let t = ty.clone();
            *ty = parse_quote!(vp_ret!(#t));
        }
        let skip_hints = self.nohint.contains(key) || self.nohint.contains(&qkey);
        if skip_hints {
            self.log.push(format!("NOHINT {}: proof hints not injected (fallback after a tool error inside this function)", key));
        }
        let skipped: BTreeSet<String> = self.skip_hints.get(key).cloned().or_else(|| self.skip_hints.get(&qkey).cloned()).unwrap_or_default();
        let mut fc = fc;
        // locals of this body; renamed locals are followed (the hints of contracts/ name locals of the unchanged tree)
        if has_body {
            let mut lc = LetCollector { out: vec![] };
            lc.visit_block_mut(block);
            self.locals.push((key.to_string(), lc.out.clone()));
            if let Some(old) = self.locals_baseline.get(key).or_else(|| self.locals_baseline.get(&qkey)) {
                let rm = rename_map(old, &lc.out);
                for (o, n) in &rm {
                    self.renamed.push(format!("RENAMED-LOCAL {} {} -> {}", key, o, n));
                    for a in fc.anchors.iter_mut() {
                        a.text = replace_word(&a.text, o, n);
                        a.prefix = replace_word(&a.prefix, o, n);
                    }
                    for l in fc.loops.values_mut() {
                        l.text = replace_word(&l.text, o, n);
                    }
                    for c in fc.closures.values_mut() {
                        *c = replace_word(c, o, n);
                    }
                }
            }
        }
        for o in fc.loops.keys().cloned().collect::<Vec<_>>() {
            if skipped.contains(&format!("loop#{}", o)) {
                fc.loops.remove(&o);
                self.log.push(format!("SKIP-HINT {} loop#{} (requested by the driver)", key, o));
            }
        }
        for o in fc.closures.keys().cloned().collect::<Vec<_>>() {
            if skipped.contains(&format!("closure#{}", o)) {
                fc.closures.remove(&o);
                self.log.push(format!("SKIP-HINT {} closure#{} (requested by the driver)", key, o));
            }
        }
        if !(dropb && has_body) && has_body && !skip_hints {
            // loops
            let mut lp = LoopPlanter { ord: 0, fc: &fc, markers: vec![], used: BTreeSet::new() };
            lp.visit_block_mut(block);
            let used = lp.used.clone();
            let lmarks = std::mem::take(&mut lp.markers);
            for (id_placeholder, text) in lmarks {
                // id_placeholder is index in local list; we need global ids: re-map below
                let _ = (id_placeholder, text);
            }
            // second pass to assign global ids: LoopPlanter stored placeholder macros `vp_loop!(L<ord>)`
            for (ord, l) in &fc.loops {
                if !used.contains(ord) {
                    self.lost.push(format!("LOST-LOOP {} loop#{}", key, ord));
                } else {
                    let gid = self.marker(format!("/*@vp-hint {} loop#{}*/\n{}\n/*@vp-hint-end*/", key, ord, l.text.trim_end()));
                    replace_macro_arg(block, &format!("VPL{}", ord), gid);
                }
            }
            // anchors
            for (i, a) in fc.anchors.iter().enumerate() {
                if skipped.contains(&format!("anchor#{}", i)) {
                    self.log.push(format!("SKIP-HINT {} anchor#{} (requested by the driver)", key, i));
                    continue;
                }
                let gid = self.marker(format!("/*@vp-hint {} anchor#{}*/\n{}\n/*@vp-hint-end*/", key, i, a.text.trim_end()));
                let ok = match a.pos.as_str() {
                    "start" => {
                        let m: Stmt = parse_quote!(vp_proof!(#gid););
                        block.stmts.insert(0, m);
                        true
                    }
                    "tail" => {
                        // N14: bind the tail expression to a fresh variable so that a hint can mention the result
                        match block.stmts.pop() {
                            Some(Stmt::Expr(e, None)) => {
                                block.stmts.push(parse_quote!(let vp_tail = #e;));
                                block.stmts.push(parse_quote!(vp_proof!(#gid);));
                                block.stmts.push(Stmt::Expr(parse_quote!(vp_tail), None));
                                self.log.push(format!("N14 tail expression of {} bound to `vp_tail`", key));
                                true
                            }
                            Some(other) => {
                                block.stmts.push(other);
                                false
                            }
                            None => false,
                        }
                    }
                    "loopstart" | "loopend" => {
                        let mut ap = LoopAnchor { ord: 0, target: a.nth, end: a.pos == "loopend", gid, done: false };
                        ap.visit_block_mut(block);
                        ap.done
                    }
                    _ => {
                        let mut ap = StmtAnchor { prefix: a.prefix.clone(), nth: a.nth, seen: 0, before: a.pos == "before", gid, done: false };
                        ap.visit_block_mut(block);
                        if !ap.done {
                            // fuzzy fallback: the statement was edited; place the hint at the statement that is clearly the
                            // closest to the anchor text.  The checker treats verdicts of such a function differentially.
                            if let Some((target, score)) = fuzzy_target(block, &a.prefix) {
                                let mut ap2 = StmtAnchor { prefix: target.clone(), nth: 0, seen: 0, before: a.pos == "before", gid, done: false };
                                ap2.visit_block_mut(block);
                                if ap2.done {
                                    self.fuzzy.push(format!("FUZZY-ANCHOR {} anchor#{} {} {:?} -> {:?} (score {:.2})", key, i, a.pos, a.prefix, target.chars().take(60).collect::<String>(), score));
                                }
                                ap2.done
                            } else {
                                false
                            }
                        } else {
                            true
                        }
                    }
                };
                if !ok {
                    self.lost.push(format!("LOST-ANCHOR {} anchor#{} {} #{} {:?}", key, i, a.pos, a.nth, a.prefix));
                }
            }
            // closures
            {
                struct CP<'b> {
                    ord: usize,
                    fc: &'b FnC,
                    found: Vec<(usize, String, String)>,
                }
                impl<'b> VisitMut for CP<'b> {
                    fn visit_expr_mut(&mut self, e: &mut Expr) {
                        if let Expr::Closure(c) = e {
                            let ord = self.ord;
                            self.ord += 1;
                            // visit nested closures inside the body first (they get later ordinals)
                            visit_mut::visit_expr_mut(self, &mut c.body);
                            let body_txt = norm(&c.body.to_token_stream().to_string());
                            let mut like = self.fc.closure_like.iter().find(|(_, pre)| body_txt.starts_with(pre.as_str())).map(|(o, _)| *o);
                            if like.is_none() && c.inputs.len() == 1 {
                                // the contracts name a single parameter `vp_x` (N10 does): a closure written by hand with another
                                // parameter name matches after renaming that parameter in its body
                                let pid = match c.inputs.first().unwrap() {
                                    Pat::Ident(pi) => Some(pi.ident.clone()),
                                    Pat::Type(pt) => match &*pt.pat { Pat::Ident(pi) => Some(pi.ident.clone()), _ => None },
                                    _ => None,
                                };
                                if let Some(pid) = pid {
                                    fn ren(ts: TokenStream, from: &Ident, to: &Ident) -> TokenStream {
                                        ts.into_iter()
                                            .map(|tt| match tt {
                                                proc_macro2::TokenTree::Ident(ref id) if id == from => proc_macro2::TokenTree::Ident(to.clone()),
                                                proc_macro2::TokenTree::Group(g) => {
                                                    let mut ng = proc_macro2::Group::new(g.delimiter(), ren(g.stream(), from, to));
                                                    ng.set_span(g.span());
                                                    proc_macro2::TokenTree::Group(ng)
                                                }
                                                other => other,
                                            })
                                            .collect()
                                    }
                                    let to = format_ident!("vp_x");
                                    let renamed = ren(c.body.to_token_stream(), &pid, &to);
                                    let txt2 = norm(&renamed.to_string());
                                    if let Some(o) = self.fc.closure_like.iter().find(|(_, pre)| txt2.starts_with(pre.as_str())).map(|(o, _)| *o) {
                                        if let Ok(nb) = syn::parse2::<Expr>(renamed) {
                                            *c.body = nb;
                                            like = Some(o);
                                        }
                                    }
                                }
                            }
                            let use_ord = match like {
                                Some(o) => Some(o),
                                None => if self.fc.closures.contains_key(&ord) && ord < 1000 { Some(ord) } else { None },
                            };
                            if let Some(uo) = use_ord {
                                let t = self.fc.closures.get(&uo).unwrap();
                                let body = c.body.clone();
                                // a content-matched contract may serve several closures: give each use its own placeholder
                                let ph = format_ident!("VPC{}x{}", uo, self.found.len());
                                self.found.push((uo, t.clone(), ph.to_string()));
                                *e = parse_quote!(vp_closure!(#ph, { #body }));
                            }
                            return;
                        }
                        visit_mut::visit_expr_mut(self, e);
                    }
                }
                let mut cp = CP { ord: 0, fc: &fc, found: vec![] };
                cp.visit_block_mut(block);
                let found = cp.found.clone();
                for (ord, _t) in &fc.closures {
                    // an ordinal contract whose closure also matches a content contract is not lost
                    if *ord < 1000 && !found.iter().any(|(o, _, _)| o == ord) && found.len() < fc.closures.iter().filter(|(o, _)| **o < 1000).count() {
                        self.lost.push(format!("LOST-CLOSURE {} closure#{}", key, ord));
                    }
                }
                if let Some(last) = self.shapes.last_mut() {
                    if last.0 == key {
                        last.3 = found.len();
                    }
                }
                for (_ord, t, ph) in found {
                    let gid = self.marker(t);
                    replace_macro_ident(block, "vp_closure", &ph, gid);
                }
            }
        }
        let gid = self.marker(fc.header.clone());
        if has_body {
            let m: Stmt = parse_quote!(vp_contract!(#gid););
            block.stmts.insert(0, m);
        } else {
            *block = parse_quote!({ vp_contract_nobody!(#gid); });
        }
    }
}

enum FmtPiece {
    Lit(String),
    Hole { name: Option<String>, spec: String },
}

/// a format string as literal pieces and holes; None for anything but `{}`, `{name}`, `{:x}`, `{:02x}`, `{name:x}`, `{name:02x}`
fn parse_fmt_pieces(fmt: &str) -> Option<Vec<FmtPiece>> {
    if fmt.contains("{{") || fmt.contains("}}") {
        return None;
    }
    let mut out = vec![];
    let mut rest = fmt;
    loop {
        match rest.find('{') {
            None => {
                if rest.contains('}') {
                    return None;
                }
                if !rest.is_empty() {
                    out.push(FmtPiece::Lit(rest.to_string()));
                }
                return Some(out);
            }
            Some(p) => {
                if rest[..p].contains('}') {
                    return None;
                }
                if p > 0 {
                    out.push(FmtPiece::Lit(rest[..p].to_string()));
                }
                let q = rest[p..].find('}')? + p;
                let inner = &rest[p + 1..q];
                let (name, spec) = match inner.split_once(':') {
                    Some((n, sp)) => (n, sp),
                    None => (inner, ""),
                };
                if !(spec.is_empty() || spec == "x" || spec == "02x") {
                    return None;
                }
                let name = if name.is_empty() {
                    None
                } else if name.chars().all(|c| c.is_ascii_alphanumeric() || c == '_') && !name.chars().next().unwrap().is_ascii_digit() {
                    Some(name.to_string())
                } else {
                    return None;
                };
                out.push(FmtPiece::Hole { name, spec: spec.to_string() });
                rest = &rest[q + 1..];
            }
        }
    }
}

fn replace_macro_ident(block: &mut Block, mac: &str, placeholder: &str, gid: usize) {
    struct R<'a> {
        mac: &'a str,
        ph: &'a str,
        gid: usize,
    }
    // the placeholder is unique, and a nested closure sits inside the (opaque) tokens of the outer macro call: replace it
    // wherever it occurs in the token tree
    fn subst(ts: TokenStream, ph: &str, gid: usize) -> TokenStream {
        ts.into_iter()
            .map(|tt| match tt {
                proc_macro2::TokenTree::Ident(ref id) if id == ph => proc_macro2::TokenTree::Literal(proc_macro2::Literal::usize_unsuffixed(gid)),
                proc_macro2::TokenTree::Group(g) => {
                    let mut ng = proc_macro2::Group::new(g.delimiter(), subst(g.stream(), ph, gid));
                    ng.set_span(g.span());
                    proc_macro2::TokenTree::Group(ng)
                }
                other => other,
            })
            .collect()
    }
    impl<'a> VisitMut for R<'a> {
        fn visit_macro_mut(&mut self, m: &mut Macro) {
            if m.path.is_ident(self.mac) {
                m.tokens = subst(m.tokens.clone(), self.ph, self.gid);
            }
        }
    }
    R { mac, ph: placeholder, gid }.visit_block_mut(block);
}

fn replace_macro_arg(block: &mut Block, placeholder: &str, gid: usize) {
    struct R<'a> {
        ph: &'a str,
        gid: usize,
    }
    impl<'a> VisitMut for R<'a> {
        fn visit_macro_mut(&mut self, m: &mut Macro) {
            if m.path.is_ident("vp_loop") && norm(&m.tokens.to_string()).starts_with(self.ph) {
                let rest = norm(&m.tokens.to_string())[self.ph.len()..].to_string();
                if rest.is_empty() || rest.starts_with(',') {
                    let gid = self.gid;
                    let rest_ts: TokenStream = rest.parse().unwrap();
                    m.tokens = quote!(#gid #rest_ts);
                }
            }
        }
    }
    R { ph: placeholder, gid }.visit_block_mut(block);
}

struct LoopPlanter<'a> {
    ord: usize,
    fc: &'a FnC,
    markers: Vec<(usize, String)>,
    used: BTreeSet<usize>,
}
impl<'a> LoopPlanter<'a> {
    fn plant(&mut self, body: &mut Block, for_expr: Option<&mut Expr>) {
        let ord = self.ord;
        self.ord += 1;
        if let Some(l) = self.fc.loops.get(&ord) {
            self.used.insert(ord);
            let ph = format_ident!("VPL{}", ord);
            let m: Stmt = parse_quote!(vp_loop!(#ph););
            body.stmts.insert(0, m);
            if let (Some(e), Some(n)) = (for_expr, &l.iter_name) {
                let id = format_ident!("{}", n);
                let old = e.clone();
                *e = parse_quote!(vp_iter!(#id, #old));
            }
        }
    }
}
impl<'a> VisitMut for LoopPlanter<'a> {
    fn visit_expr_closure_mut(&mut self, _c: &mut ExprClosure) {}
    fn visit_expr_while_mut(&mut self, w: &mut ExprWhile) {
        self.plant(&mut w.body, None);
        visit_mut::visit_expr_while_mut(self, w);
    }
    fn visit_expr_for_loop_mut(&mut self, f: &mut ExprForLoop) {
        let ExprForLoop { body, expr, .. } = f;
        self.plant(body, Some(expr));
        visit_mut::visit_block_mut(self, &mut f.body);
    }
    fn visit_expr_loop_mut(&mut self, l: &mut ExprLoop) {
        self.plant(&mut l.body, None);
        visit_mut::visit_expr_loop_mut(self, l);
    }
}

struct LoopAnchor {
    ord: usize,
    target: usize,
    end: bool,
    gid: usize,
    done: bool,
}
impl LoopAnchor {
    fn at(&mut self, body: &mut Block) {
        if self.ord == self.target && !self.done {
            let gid = self.gid;
            let m: Stmt = parse_quote!(vp_proof!(#gid););
            if self.end {
                body.stmts.push(m);
            } else {
                // after a possible vp_loop! marker
                let pos = if matches!(body.stmts.first(), Some(Stmt::Macro(sm)) if sm.mac.path.is_ident("vp_loop")) { 1 } else { 0 };
                body.stmts.insert(pos, m);
            }
            self.done = true;
        }
        self.ord += 1;
    }
}
impl VisitMut for LoopAnchor {
    fn visit_expr_closure_mut(&mut self, _c: &mut ExprClosure) {}
    fn visit_expr_while_mut(&mut self, w: &mut ExprWhile) {
        self.at(&mut w.body);
        visit_mut::visit_expr_while_mut(self, w);
    }
    fn visit_expr_for_loop_mut(&mut self, f: &mut ExprForLoop) {
        self.at(&mut f.body);
        visit_mut::visit_block_mut(self, &mut f.body);
    }
    fn visit_expr_loop_mut(&mut self, l: &mut ExprLoop) {
        self.at(&mut l.body);
        visit_mut::visit_expr_loop_mut(self, l);
    }
}

/// what a body calls (method names, last path segment of called paths, macro names) and how many closures it holds
struct ShapeCollector {
    calls: BTreeSet<String>,
    closures: usize,
}
impl VisitMut for ShapeCollector {
    fn visit_expr_method_call_mut(&mut self, m: &mut ExprMethodCall) {
        self.calls.insert(m.method.to_string());
        visit_mut::visit_expr_method_call_mut(self, m);
    }
    fn visit_expr_call_mut(&mut self, c: &mut ExprCall) {
        if let Expr::Path(p) = &*c.func {
            if let Some(s) = p.path.segments.last() {
                self.calls.insert(s.ident.to_string());
            }
        }
        visit_mut::visit_expr_call_mut(self, c);
    }
    fn visit_macro_mut(&mut self, m: &mut Macro) {
        if let Some(s) = m.path.segments.last() {
            let n = s.ident.to_string();
            if !n.starts_with("vp_") {
                self.calls.insert(format!("{}!", n));
            }
        }
        visit_mut::visit_macro_mut(self, m);
    }
    fn visit_expr_closure_mut(&mut self, c: &mut ExprClosure) {
        self.closures += 1;
        visit_mut::visit_expr_closure_mut(self, c);
    }
}

/// `let` bindings of a body in source order: (name, statement text with the bound name replaced by `$`)
struct LetCollector {
    out: Vec<(String, String)>,
}
impl VisitMut for LetCollector {
    fn visit_local_mut(&mut self, l: &mut Local) {
        let name = match &l.pat {
            Pat::Ident(pi) => Some(pi.ident.to_string()),
            Pat::Type(pt) => match &*pt.pat {
                Pat::Ident(pi) => Some(pi.ident.to_string()),
                _ => None,
            },
            _ => None,
        };
        if let Some(n) = name {
            // the declaration without its type annotation: `let [mut] $ = <init>`
            let init = l.init.as_ref().map(|i| i.expr.to_token_stream().to_string()).unwrap_or_default();
            let is_mut = matches!(&l.pat, Pat::Ident(pi) if pi.mutability.is_some())
                || matches!(&l.pat, Pat::Type(pt) if matches!(&*pt.pat, Pat::Ident(pi) if pi.mutability.is_some()));
            let txt = format!("let {} $ = {}", if is_mut { "mut" } else { "" }, replace_word(&init, &n, "$"));
            self.out.push((n.clone(), norm(&txt)));
        }
        visit_mut::visit_local_mut(self, l);
    }
    fn visit_expr_for_loop_mut(&mut self, f: &mut ExprForLoop) {
        // pattern variables of a `for` loop: the i-th variable of `for (..) in <expr>`
        let mut ids: Vec<String> = vec![];
        fn walk(p: &Pat, ids: &mut Vec<String>) {
            match p {
                Pat::Ident(pi) => ids.push(pi.ident.to_string()),
                Pat::Tuple(t) => t.elems.iter().for_each(|e| walk(e, ids)),
                Pat::Reference(r) => walk(&r.pat, ids),
                _ => {}
            }
        }
        walk(&f.pat, &mut ids);
        let e = norm(&f.expr.to_token_stream().to_string());
        for (i, n) in ids.iter().enumerate() {
            self.out.push((n.clone(), format!("for#{}in{}", i, e)));
        }
        visit_mut::visit_expr_for_loop_mut(self, f);
    }
}
/// replace whole-word occurrences of `from` (identifier boundaries) by `to`
fn replace_word(s: &str, from: &str, to: &str) -> String {
    let b = s.as_bytes();
    let f = from.as_bytes();
    let isid = |c: u8| c.is_ascii_alphanumeric() || c == b'_';
    let mut out = String::new();
    let mut i = 0;
    while i < b.len() {
        if i + f.len() <= b.len() && &b[i..i + f.len()] == f && (i == 0 || !isid(b[i - 1])) && (i + f.len() == b.len() || !isid(b[i + f.len()])) {
            out.push_str(to);
            i += f.len();
        } else {
            out.push(b[i] as char);
            i += 1;
        }
    }
    out
}
/// locals of the unchanged tree that are gone, paired with the new local whose declaration is clearly the same one
fn rename_map(old: &[(String, String)], cur: &[(String, String)]) -> Vec<(String, String)> {
    let cur_names: BTreeSet<&String> = cur.iter().map(|x| &x.0).collect();
    let old_names: BTreeSet<&String> = old.iter().map(|x| &x.0).collect();
    let mut out: Vec<(String, String)> = vec![];
    for (on, ot) in old {
        if cur_names.contains(on) || out.iter().any(|(o, _)| o == on) {
            continue;
        }
        let mut scored: Vec<(f64, &String)> = vec![];
        for (cn, ct) in cur {
            if old_names.contains(cn) || out.iter().any(|(_, n)| n == cn) {
                continue;
            }
            let d = lev(ot.as_bytes(), ct.as_bytes());
            let sc = 1.0 - (d as f64) / (ot.len().max(ct.len()).max(1) as f64);
            scored.push((sc, cn));
        }
        scored.sort_by(|a, b| b.0.partial_cmp(&a.0).unwrap());
        let ok = match scored.as_slice() {
            [] => None,
            [(s0, n0)] => if *s0 >= 0.75 { Some((*n0).clone()) } else { None },
            [(s0, n0), (s1, n1), ..] => if *s0 >= 0.75 && (*s0 - *s1 >= 0.1 || n0 == n1 || (*s0 >= 0.9999 && *s1 < 0.9999)) { Some((*n0).clone()) } else { None },
        };
        if let Some(n) = ok {
            out.push((on.clone(), n));
        }
    }
    out
}

/// all statements of a body (nested blocks included), normalised, for the fuzzy fallback of a lost `@anchor`
struct StmtCollector {
    out: Vec<String>,
}
impl VisitMut for StmtCollector {
    fn visit_block_mut(&mut self, b: &mut Block) {
        for st in b.stmts.iter_mut() {
            let is_marker = matches!(&*st, Stmt::Macro(sm) if sm.mac.path.segments.last().map(|s| s.ident.to_string().starts_with("vp_")).unwrap_or(false));
            if !is_marker {
                self.out.push(norm(&st.to_token_stream().to_string()));
            }
            visit_mut::visit_stmt_mut(self, st);
        }
    }
}
fn lev(a: &[u8], b: &[u8]) -> usize {
    let mut prev: Vec<usize> = (0..=b.len()).collect();
    for i in 1..=a.len() {
        let mut cur = vec![i; b.len() + 1];
        for j in 1..=b.len() {
            let c = if a[i - 1] == b[j - 1] { 0 } else { 1 };
            cur[j] = (prev[j] + 1).min(cur[j - 1] + 1).min(prev[j - 1] + c);
        }
        prev = cur;
    }
    prev[b.len()]
}
/// the statement whose head is closest to `prefix` (normalised edit distance), if it is close enough and clearly the closest
fn fuzzy_target(block: &mut Block, prefix: &str) -> Option<(String, f64)> {
    let mut c = StmtCollector { out: vec![] };
    c.visit_block_mut(block);
    let p = prefix.as_bytes();
    if p.len() < 8 {
        return None;
    }
    let mut scored: Vec<(f64, String)> = vec![];
    for t in c.out {
        let tb = t.as_bytes();
        let mut best = 0.0f64;
        for extra in [0usize, 2, 4, 8] {
            let n = (p.len() + extra).min(tb.len());
            let d = lev(p, &tb[..n]);
            let sc = 1.0 - (d as f64) / (p.len() as f64);
            if sc > best {
                best = sc;
            }
        }
        scored.push((best, t));
    }
    scored.sort_by(|a, b| b.0.partial_cmp(&a.0).unwrap());
    scored.dedup_by(|a, b| a.1 == b.1);
    match scored.as_slice() {
        [] => None,
        [(s0, t0)] => if *s0 >= 0.7 { Some((t0.clone(), *s0)) } else { None },
        [(s0, t0), (s1, _), ..] => if *s0 >= 0.7 && *s0 - *s1 >= 0.08 { Some((t0.clone(), *s0)) } else { None },
    }
}

struct StmtAnchor {
    prefix: String,
    nth: usize,
    seen: usize,
    before: bool,
    gid: usize,
    done: bool,
}
impl VisitMut for StmtAnchor {
    fn visit_block_mut(&mut self, b: &mut Block) {
        if self.done {
            return;
        }
        let mut i = 0;
        while i < b.stmts.len() {
            let is_marker = matches!(&b.stmts[i], Stmt::Macro(sm) if sm.mac.path.segments.last().map(|s| s.ident.to_string().starts_with("vp_")).unwrap_or(false));
            if !is_marker {
                let txt = norm(&b.stmts[i].to_token_stream().to_string());
                if txt.starts_with(&self.prefix) {
                    if self.seen == self.nth {
                        let gid = self.gid;
                        let m: Stmt = parse_quote!(vp_proof!(#gid););
                        if self.before {
                            b.stmts.insert(i, m);
                        } else {
                            // "after" a tail expression is impossible: report as lost
                            if i == b.stmts.len() - 1
                                && matches!(&b.stmts[i], Stmt::Expr(e, None) if !matches!(e, Expr::ForLoop(_) | Expr::While(_) | Expr::Loop(_)))
                            {
                                return;
                            }
                            b.stmts.insert(i + 1, m);
                        }
                        self.done = true;
                        return;
                    }
                    self.seen += 1;
                }
            }
            // recurse into this statement
            let mut s = b.stmts[i].clone();
            visit_mut::visit_stmt_mut(self, &mut s);
            b.stmts[i] = s;
            if self.done {
                return;
            }
            i += 1;
        }
    }
}

impl<'a> VisitMut for Planter<'a> {
    fn visit_item_fn_mut(&mut self, f: &mut ItemFn) {
        let key = f.sig.ident.to_string();
        let ItemFn { sig, block, attrs, .. } = f;
        self.plant_in_body(&key, sig, block, attrs, true);
    }
    fn visit_item_impl_mut(&mut self, im: &mut ItemImpl) {
        let selfk = ty_key(&im.self_ty);
        let scope = match &im.trait_ {
            Some((_, p, _)) => format!("{}for{}", trait_key(p), selfk),
            None => selfk.clone(),
        };
        // ghost items for this impl
        let ikey = match &im.trait_ {
            Some((_, p, _)) => norm(&format!("impl {} for {}", trait_key(p), selfk)),
            None => norm(&format!("impl {}", selfk)),
        };
        let qikey = norm(&format!("{}::{}", self.module, ikey));
        let ikey = if self.c.traits.contains_key(&qikey) { qikey } else { ikey };
        if let Some(t) = self.c.traits.get(&ikey).cloned() {
            self.c.used_traits.insert(ikey.clone());
            let gid = self.marker(t);
            im.items.insert(0, parse_quote!(vp_items!(#gid);));
        }
        for it in im.items.iter_mut() {
            if let ImplItem::Fn(f) = it {
                let key = format!("{}::{}", scope, f.sig.ident);
                let ImplItemFn { sig, block, attrs, .. } = f;
                self.plant_in_body(&key, sig, block, attrs, true);
            }
        }
    }
    fn visit_item_trait_mut(&mut self, tr: &mut ItemTrait) {
        let tkey = norm(&format!("trait {}", tr.ident));
        if let Some(t) = self.c.traits.get(&tkey).cloned() {
            self.c.used_traits.insert(tkey.clone());
            let gid = self.marker(t);
            tr.items.insert(0, parse_quote!(vp_items!(#gid);));
        }
        let scope = tr.ident.to_string();
        for it in tr.items.iter_mut() {
            if let TraitItem::Fn(f) = it {
                let key = format!("{}::{}", scope, f.sig.ident);
                let has_body = f.default.is_some();
                let mut blk: Block = f.default.clone().unwrap_or_else(|| parse_quote!({}));
                let TraitItemFn { sig, attrs, .. } = f;
                let had_contract = self.c.fns.contains_key(&key);
                self.plant_in_body(&key, sig, &mut blk, attrs, has_body);
                if has_body || had_contract {
                    f.default = Some(blk);
                    f.semi_token = None;
                }
            }
        }
    }
    fn visit_item_struct_mut(&mut self, st: &mut ItemStruct) {
        if self.ext_types.contains(&st.ident.to_string()) {
            st.attrs.push(parse_quote!(#[verifier::external_body]));
            st.attrs.retain(|a| !a.path().is_ident("derive"));
            self.log.push(format!("struct {} marked external_body (opaque to the verifier)", st.ident));
        }
    }
    fn visit_item_mod_mut(&mut self, _m: &mut ItemMod) {
        // nested inline modules (tests, serde helper) are dropped earlier; nothing to do
    }
}

// ---------------------------------------------------------------- text post-processing

fn find_matching(s: &[u8], open_idx: usize) -> usize {
    let (o, c) = (s[open_idx], match s[open_idx] {
        b'(' => b')',
        b'{' => b'}',
        b'[' => b']',
        _ => panic!(),
    });
    let mut depth = 0;
    let mut i = open_idx;
    while i < s.len() {
        if s[i] == o {
            depth += 1;
        } else if s[i] == c {
            depth -= 1;
            if depth == 0 {
                return i;
            }
        }
        i += 1;
    }
    panic!("unbalanced");
}

fn indent(text: &str, n: usize) -> String {
    let pad = " ".repeat(n);
    text.lines().map(|l| if l.trim().is_empty() { String::new() } else { format!("{}{}", pad, l) }).collect::<Vec<_>>().join("\n")
}

/// `vp_xxx ! (` (token printing of items rustfmt left alone) -> `vp_xxx!(`
fn squeeze_markers(s: &str) -> String {
    let b: Vec<char> = s.chars().collect();
    let mut out = String::with_capacity(s.len());
    let mut i = 0;
    while i < b.len() {
        if b[i] == 'v' && i + 3 < b.len() && b[i + 1] == 'p' && b[i + 2] == '_' && (i == 0 || !(b[i - 1].is_alphanumeric() || b[i - 1] == '_')) {
            let mut j = i;
            while j < b.len() && (b[j].is_alphanumeric() || b[j] == '_') {
                j += 1;
            }
            let mut k = j;
            while k < b.len() && b[k] == ' ' {
                k += 1;
            }
            if k < b.len() && b[k] == '!' {
                let mut l = k + 1;
                while l < b.len() && b[l] == ' ' {
                    l += 1;
                }
                if l < b.len() && b[l] == '(' {
                    out.extend(b[i..j].iter());
                    out.push_str("!(");
                    i = l + 1;
                    continue;
                }
            }
        }
        out.push(b[i]);
        i += 1;
    }
    out
}

fn postprocess(s: String, index: &[String]) -> String {
    let mut s = squeeze_markers(&s);
    // vp_ret!(T) -> (r: T)
    loop {
        let Some(p) = s.find("vp_ret!(") else { break };
        let open = p + "vp_ret!".len();
        let close = find_matching(s.as_bytes(), open);
        let inner = s[open + 1..close].to_string();
        s.replace_range(p..=close, &format!("(r: {})", inner.trim()));
    }
    // vp_iter!(name, E) -> name: E
    loop {
        let Some(p) = s.find("vp_iter!(") else { break };
        let open = p + "vp_iter!".len();
        let close = find_matching(s.as_bytes(), open);
        let inner = s[open + 1..close].to_string();
        let (n, e) = inner.split_once(',').unwrap();
        s.replace_range(p..=close, &format!("{}: {}", n.trim(), e.trim()));
    }
    // vp_closure!(N, { body }) -> HEADER { body }
    loop {
        let Some(p) = s.find("vp_closure!(") else { break };
        let open = p + "vp_closure!".len();
        let close = find_matching(s.as_bytes(), open);
        let inner = s[open + 1..close].to_string();
        let (n, body) = inner.split_once(',').unwrap();
        let id: usize = n.trim().trim_end_matches("usize").parse().unwrap();
        let text = format!("{} {}", index[id].trim_end(), body.trim());
        s.replace_range(p..=close, &text);
    }
    // vp_contract_nobody!(N); inside { } -> contract ;
    loop {
        let Some(p) = s.find("vp_contract_nobody!(") else { break };
        let close = s[p..].find(");").unwrap() + p;
        let id: usize = s[p + "vp_contract_nobody!(".len()..close].trim().trim_end_matches("usize").parse().unwrap();
        let open_brace = s[..p].rfind('{').unwrap();
        let end_brace = s[close..].find('}').unwrap() + close;
        let text = format!("\n{}\n    ;", indent(&index[id], 8));
        s.replace_range(open_brace..=end_brace, &text);
    }
    // vp_contract!(N); first statement of a body -> contract text before the brace
    loop {
        let Some(p) = s.find("vp_contract!(") else { break };
        let close = s[p..].find(");").unwrap() + p;
        let id: usize = s[p + "vp_contract!(".len()..close].trim().trim_end_matches("usize").parse().unwrap();
        let open_brace = s[..p].rfind('{').unwrap();
        // indentation of the line holding the brace
        let text = format!("\n{}\n    {{", indent(&index[id], 8));
        s.replace_range(open_brace..close + 2, &text);
    }
    // vp_loop!(N); first statement of a loop body -> invariants before the brace
    loop {
        let Some(p) = s.find("vp_loop!(") else { break };
        let close = s[p..].find(");").unwrap() + p;
        let id: usize = s[p + "vp_loop!(".len()..close].trim().trim_end_matches("usize").parse().unwrap();
        let open_brace = s[..p].rfind('{').unwrap();
        let text = format!("\n{}\n    {{", indent(&index[id], 12));
        s.replace_range(open_brace..close + 2, &text);
    }
    // vp_proof!(N); / vp_items!(N);
    for mac in ["vp_proof!(", "vp_items!("] {
        loop {
            let Some(p) = s.find(mac) else { break };
            let close = s[p..].find(");").unwrap() + p;
            let id: usize = s[p + mac.len()..close].trim().trim_end_matches("usize").parse().unwrap();
            let text = format!("\n{}\n", indent(&index[id], 8));
            s.replace_range(p..close + 2, &text);
        }
    }
    s
}

fn rustfmt(src: &str) -> String {
    let mut child = Command::new("rustfmt")
        .args(["--edition", "2021", "--config", "max_width=140"])
        .stdin(Stdio::piped())
        .stdout(Stdio::piped())
        .stderr(Stdio::piped())
        .spawn()
        .expect("rustfmt");
    child.stdin.take().unwrap().write_all(src.as_bytes()).unwrap();
    let out = child.wait_with_output().unwrap();
    if !out.status.success() {
        eprintln!("rustfmt failed: {}", String::from_utf8_lossy(&out.stderr));
        return src.to_string();
    }
    String::from_utf8(out.stdout).unwrap()
}

// ---------------------------------------------------------------- main

fn main() {
    let args: Vec<String> = std::env::args().collect();
    if args.len() != 5 {
        eprintln!("usage: vpx <repo_root> <extract.json> <contracts_dir> <out_dir>");
        std::process::exit(64);
    }
    let repo = &args[1];
    let cfg: Value = serde_json::from_str(&fs::read_to_string(&args[2]).expect("extract.json")).expect("json");
    let mut const_values: BTreeMap<String, u64> = BTreeMap::new();
    if let Some(o) = cfg.get("const_values").and_then(|v| v.as_object()) {
        for (k, v) in o {
            if let Some(n) = v.as_u64() {
                const_values.insert(k.clone(), n);
            }
        }
    }
    let drop_module_bodies: BTreeSet<String> = cfg.get("drop_module_bodies").and_then(|v| v.as_array()).map(|a| a.iter().filter_map(|x| x.as_str().map(|s| s.to_string())).collect()).unwrap_or_default();
    let drop_use_names: BTreeSet<String> = cfg.get("drop_use_names").and_then(|v| v.as_array()).map(|a| a.iter().filter_map(|x| x.as_str().map(|s| s.to_string())).collect()).unwrap_or_default();
    let config_name = cfg.get("config").and_then(|v| v.as_str()).unwrap_or("main").to_string();
    let mut contracts = parse_contracts(&args[3], &config_name);
    let out_dir = &args[4];
    fs::create_dir_all(out_dir).unwrap();

    let feats: BTreeSet<String> = cfg["features"].as_array().unwrap().iter().map(|v| v.as_str().unwrap().to_string()).collect();
    let standin: BTreeSet<String> = cfg["standin_crates"].as_array().unwrap().iter().map(|v| v.as_str().unwrap().to_string()).collect();
    let asref_methods: BTreeSet<String> = cfg["asref_key_methods"].as_array().unwrap().iter().map(|v| v.as_str().unwrap().to_string()).collect();
    let drop_bodies: BTreeSet<String> = cfg["drop_bodies"].as_array().unwrap().iter().map(|v| norm(v.as_str().unwrap())).collect();
    let keep_only: Option<BTreeSet<String>> = cfg["keep_only"].as_array().map(|a| a.iter().map(|v| norm(v.as_str().unwrap())).collect());
    let nohint: BTreeSet<String> = cfg["nohint_fns"].as_array().map(|a| a.iter().map(|v| norm(v.as_str().unwrap())).collect()).unwrap_or_default();
    let ext_types: BTreeSet<String> = cfg["external_body_types"].as_array().map(|a| a.iter().map(|v| v.as_str().unwrap().to_string()).collect()).unwrap_or_default();
    let inline_modules: BTreeSet<String> = cfg["inline_modules"].as_array().map(|a| a.iter().map(|v| v.as_str().unwrap().to_string()).collect()).unwrap_or_default();
    let mut log_n18: Vec<String> = vec![];
    let drop_fns: BTreeSet<String> = cfg["drop_fns"].as_array().map(|a| a.iter().map(|v| norm(v.as_str().unwrap())).collect()).unwrap_or_default();
    let drop_items: BTreeSet<String> = cfg["drop_items"].as_array().unwrap().iter().map(|v| norm(v.as_str().unwrap())).collect();

    let mut lits: BTreeMap<String, Vec<u8>> = BTreeMap::new();
    let mut log_all: Vec<Value> = vec![];
    let mut lost: Vec<String> = vec![];
    let mut fuzzy: Vec<String> = vec![];
    let mut renamed: Vec<String> = vec![];
    let mut locals_all: BTreeMap<String, Vec<(String, String)>> = BTreeMap::new();
    let mut shapes_all: BTreeMap<String, Value> = BTreeMap::new();
    // locals of the unchanged tree (contracts/locals_baseline.json, written by tools/gen_hint_baseline.py)
    let mut locals_baseline: BTreeMap<String, Vec<(String, String)>> = BTreeMap::new();
    if let Ok(t) = fs::read_to_string(format!("{}/locals_baseline.json", &args[3])) {
        if let Ok(v) = serde_json::from_str::<Value>(&t) {
            if let Some(o) = v.as_object() {
                for (k, arr) in o {
                    if let Some(a) = arr.as_array() {
                        locals_baseline.insert(k.clone(), a.iter().filter_map(|p| Some((p.get(0)?.as_str()?.to_string(), p.get(1)?.as_str()?.to_string()))).collect());
                    }
                }
            }
        }
    }
    // skip_hints: {"<fn key>": ["anchor#2", "loop#0"]} -- hints the driver wants left out (per-hint differential baseline)
    let mut skip_hints: BTreeMap<String, BTreeSet<String>> = BTreeMap::new();
    if let Some(o) = cfg.get("skip_hints").and_then(|v| v.as_object()) {
        for (k, v) in o {
            skip_hints.insert(norm(k), v.as_array().map(|a| a.iter().map(|x| x.as_str().unwrap().to_string()).collect()).unwrap_or_default());
        }
    }
    let mut fn_index: Vec<Value> = vec![];
    let mut dropped_log: Vec<String> = vec![];

    for fcfg in cfg["files"].as_array().unwrap() {
        let path = fcfg["path"].as_str().unwrap();
        let module = fcfg["module"].as_str().unwrap();
        let src = match fs::read_to_string(format!("{}/{}", repo, path)) {
            Ok(s) => s,
            Err(e) => {
                eprintln!("LOST-FILE {path}: {e}");
                std::process::exit(3);
            }
        };
        let mut file: File = match syn::parse_file(&src) {
            Ok(f) => f,
            Err(e) => {
                eprintln!("PARSE-ERROR {path}: {e}");
                std::process::exit(4);
            }
        };
        file.attrs.clear();
        let mut log: Vec<String> = vec![];
        // ---- N18: functions of an inline module listed in extract.json "inline_modules" are emitted in the parent module (the
        // module path has no run-time meaning; `pub` stays)
        {
            let mut flat = vec![];
            for it in std::mem::take(&mut file.items) {
                if let Item::Mod(mut m) = it {
                    if inline_modules.contains(&m.ident.to_string()) && m.content.is_some() {
                        let mut a = std::mem::take(&mut m.attrs);
                        if filter_attrs(&mut a, &feats, &mut dropped_log) {
                            log_n18.push(format!("N18 {path}: items of inline module `{}` emitted in the parent module", m.ident));
                            for inner in m.content.take().unwrap().1 {
                                flat.push(inner);
                            }
                        } else {
                            dropped_log.push(format!("{path}: cfg-dropped mod {}", m.ident));
                        }
                        continue;
                    }
                    flat.push(Item::Mod(m));
                } else {
                    flat.push(it);
                }
            }
            file.items = flat;
        }
        // ---- item filtering
        let mut items = vec![];
        for mut it in std::mem::take(&mut file.items) {
            let (attrs, desc): (Option<&mut Vec<Attribute>>, String) = match &mut it {
                Item::Const(x) => (Some(&mut x.attrs), format!("const {}", x.ident)),
                Item::Enum(x) => (Some(&mut x.attrs), format!("enum {}", x.ident)),
                Item::Fn(x) => (Some(&mut x.attrs), format!("fn {}", x.sig.ident)),
                Item::Impl(x) => {
                    let d = match &x.trait_ {
                        Some((_, p, _)) => format!("impl {} for {}", trait_key(p), ty_key(&x.self_ty)),
                        None => format!("impl {}", ty_key(&x.self_ty)),
                    };
                    (Some(&mut x.attrs), d)
                }
                Item::Mod(x) => (Some(&mut x.attrs), format!("mod {}", x.ident)),
                Item::Struct(x) => (Some(&mut x.attrs), format!("struct {}", x.ident)),
                Item::Trait(x) => (Some(&mut x.attrs), format!("trait {}", x.ident)),
                Item::Type(x) => (Some(&mut x.attrs), format!("type {}", x.ident)),
                Item::Use(x) => (Some(&mut x.attrs), format!("use {}", x.tree.to_token_stream())),
                Item::Static(x) => (Some(&mut x.attrs), format!("static {}", x.ident)),
                Item::Macro(x) => (Some(&mut x.attrs), "macro".to_string()),
                _ => (None, "other".to_string()),
            };
            let mut keep = true;
            if let Some(a) = attrs {
                keep = filter_attrs(a, &feats, &mut log);
            }
            if !keep {
                dropped_log.push(format!("{path}: cfg-dropped {desc}"));
                continue;
            }
            if drop_items.contains(&norm(&desc)) || drop_items.contains(&norm(&format!("{}:{}", path, desc))) {
                dropped_log.push(format!("{path}: DROPPED {desc} (listed in extract.json drop_items)"));
                continue;
            }
            if let Item::Mod(m) = &it {
                // `mod x;` declarations are re-created by the assembler; inline modules are dropped unless listed
                dropped_log.push(format!("{path}: module declaration `mod {}` replaced by assembled module tree", m.ident));
                continue;
            }
            items.push(it);
        }
        // ---- per-impl member filtering (cfg on methods, attribute stripping)
        for it in items.iter_mut() {
            match it {
                Item::Impl(im) => {
                    let mut v = vec![];
                    for mut m in std::mem::take(&mut im.items) {
                        let selfk = ty_key(&im.self_ty);
                        let scope = match &im.trait_ {
                            Some((_, p, _)) => format!("{}for{}", trait_key(p), selfk),
                            None => selfk.clone(),
                        };
                        let keep = match &mut m {
                            ImplItem::Fn(f) => {
                                let k = norm(&format!("{}::{}", scope, f.sig.ident));
                                if drop_fns.contains(&k) {
                                    dropped_log.push(format!("{path}: DROPPED fn {k} (listed in extract.json drop_fns)"));
                                    false
                                } else {
                                    filter_attrs(&mut f.attrs, &feats, &mut log)
                                }
                            }
                            ImplItem::Const(c) => filter_attrs(&mut c.attrs, &feats, &mut log),
                            ImplItem::Type(t) => filter_attrs(&mut t.attrs, &feats, &mut log),
                            _ => true,
                        };
                        if keep {
                            v.push(m);
                        }
                    }
                    im.items = v;
                }
                Item::Trait(tr) => {
                    for m in tr.items.iter_mut() {
                        if let TraitItem::Fn(f) = m {
                            filter_attrs(&mut f.attrs, &feats, &mut log);
                        }
                        if let TraitItem::Type(t) = m {
                            filter_attrs(&mut t.attrs, &feats, &mut log);
                        }
                    }
                }
                Item::Struct(s) => {
                    for f in s.fields.iter_mut() {
                        filter_attrs(&mut f.attrs, &feats, &mut log);
                    }
                }
                Item::Enum(e) => {
                    for v in e.variants.iter_mut() {
                        filter_attrs(&mut v.attrs, &feats, &mut log);
                    }
                }
                _ => {}
            }
        }
        file.items = items;

        // ---- N3: byte-string consts
        let mut const_items: Vec<(String, Vec<u8>, bool, bool)> = vec![]; // name, bytes, is_pub, is_str
        let mut rest = vec![];
        for it in std::mem::take(&mut file.items) {
            if let Item::Const(c) = &it {
                match &*c.expr {
                    Expr::Lit(ExprLit { lit: Lit::ByteStr(b), .. }) => {
                        const_items.push((c.ident.to_string(), b.value(), matches!(c.vis, Visibility::Public(_)), false));
                        log.push(format!("N3 const {} = b{:?} -> exec const with generated ensures", c.ident, String::from_utf8_lossy(&b.value())));
                        continue;
                    }
                    Expr::Lit(ExprLit { lit: Lit::Str(s), .. }) => {
                        const_items.push((c.ident.to_string(), s.value().into_bytes(), matches!(c.vis, Visibility::Public(_)), true));
                        log.push(format!("N3 const {} = {:?} (str) -> exec const with generated ensures", c.ident, s.value()));
                        continue;
                    }
                    _ => {}
                }
            }
            // N3 (continued): any other constant keeps its text, but reference types inside its type get the `'static` the
            // source may elide (inside verus! a constant is a function and elided lifetimes are an error for the whole file)
            if let Item::Const(c) = &it {
                struct StaticRefs;
                impl VisitMut for StaticRefs {
                    fn visit_type_reference_mut(&mut self, r: &mut TypeReference) {
                        if r.lifetime.is_none() {
                            r.lifetime = Some(Lifetime::new("'static", Span::call_site()));
                        }
                        visit_mut::visit_type_reference_mut(self, r);
                    }
                }
                let mut c2 = c.clone();
                let before = c2.ty.to_token_stream().to_string();
                StaticRefs.visit_type_mut(&mut c2.ty);
                // such a constant usually holds literals, which become `exec const`s (N4): a constant that reads them must be
                // `exec` itself ("cannot read const with mode exec" otherwise, an error for the whole file)
                if before.contains('&') {
                    c2.attrs.push(parse_quote!(#[doc = "@vp-exec-const"]));
                }
                rest.push(Item::Const(c2));
                continue;
            }
            rest.push(it);
        }
        file.items = rest;

        // ---- rewriting
        let mut rw = Rw {
            feats: &feats,
            log: vec![],
            lits: &mut lits,
            standin_crates: &standin,
            asref_key_methods: &asref_methods,
            dyn_params: vec![],
            bufmut_params: vec![],
            str_params: vec![],
            mutslice_params: vec![],
            closure_ctr: 0,
            file: path.to_string(),
            const_values: &const_values,
            n16: 0,
            err_ctx: 0,
            local_str_newtypes: BTreeSet::new(),
        };
        rw.visit_file_mut(&mut file);
        log.extend(rw.log);
        log.append(&mut log_n18);
        // fallback after an unresolved import: the named imports are removed (the bodies of the module are dropped as well)
        if !drop_use_names.is_empty() {
            fn prune(t: UseTree, names: &BTreeSet<String>) -> Option<UseTree> {
                match t {
                    UseTree::Name(n) => if names.contains(&n.ident.to_string()) { None } else { Some(UseTree::Name(n)) },
                    UseTree::Rename(r) => if names.contains(&r.ident.to_string()) || names.contains(&r.rename.to_string()) { None } else { Some(UseTree::Rename(r)) },
                    UseTree::Glob(g) => Some(UseTree::Glob(g)),
                    UseTree::Path(p) if names.contains(&p.ident.to_string()) => None,
                    UseTree::Path(mut p) => match prune(*p.tree, names) {
                        Some(t2) => { p.tree = Box::new(t2); Some(UseTree::Path(p)) }
                        None => None,
                    },
                    UseTree::Group(mut g) => {
                        let items: Vec<UseTree> = g.items.into_iter().filter_map(|x| prune(x, names)).collect();
                        if items.is_empty() { None } else { g.items = items.into_iter().collect(); Some(UseTree::Group(g)) }
                    }
                }
            }
            let mut kept = vec![];
            for it in std::mem::take(&mut file.items) {
                if let Item::Use(mut u) = it {
                    match prune(u.tree.clone(), &drop_use_names) {
                        Some(t) => { u.tree = t; kept.push(Item::Use(u)); }
                        None => { dropped_log.push(format!("{path}: DROPPED an import (unresolved; fallback)")); }
                    }
                } else {
                    kept.push(it);
                }
            }
            file.items = kept;
        }

        // ---- marker planting
        let mut pl = Planter {
            c: &mut contracts,
            index: vec![],
            scope: vec![],
            drop_bodies: &drop_bodies,
            keep_only: &keep_only,
            nohint: &nohint,
            ext_types: &ext_types,
            module: module.to_string(),
            seen_fns: vec![],
            file: path.to_string(),
            lost: vec![],
            fuzzy: vec![],
            drop_module: drop_module_bodies.contains(module),
            renamed: vec![],
            shapes: vec![],
            locals: vec![],
            locals_baseline: &locals_baseline,
            skip_hints: &skip_hints,
            log: vec![],
        };
        pl.visit_file_mut(&mut file);
        let _ = &pl.scope;
        log.extend(pl.log.clone());
        lost.extend(pl.lost.clone());
        fuzzy.extend(pl.fuzzy.clone());
        renamed.extend(pl.renamed.clone());
        for (k, v) in &pl.locals {
            locals_all.insert(k.clone(), v.clone());
        }
        for (k, calls, ncl, nhint) in &pl.shapes {
            shapes_all.insert(k.clone(), json!({"calls": calls, "closures": ncl, "closure_contracts": nhint}));
        }
        for (k, l) in &pl.seen_fns {
            fn_index.push(json!({"key": k, "file": path, "line": l, "module": module}));
        }
        let index = pl.index.clone();

        // ---- print
        let raw = file.to_token_stream().to_string();
        let pretty = rustfmt(&raw);
        let mut text = postprocess(pretty, &index);
        if text.contains("@vp-exec-const") {
            let mut out = String::new();
            let mut pending = false;
            for line in text.lines() {
                if line.trim() == "#[doc = \"@vp-exec-const\"]" {
                    pending = true;
                    continue;
                }
                if pending && line.contains("const ") {
                    out.push_str(&line.replacen("const ", "exec const ", 1));
                    pending = false;
                } else {
                    out.push_str(line);
                }
                out.push('\n');
            }
            text = out;
        }
        // generated consts (N3)
        let mut consts_txt = String::new();
        for (name, bytes, is_pub, is_str) in &const_items {
            let seq = bytes.iter().map(|b| format!("{:#04x}u8", b)).collect::<Vec<_>>().join(", ");
            if *is_str {
                let lit = format!("{:?}", String::from_utf8_lossy(bytes));
                consts_txt.push_str(&format!(
                    "#[verifier::external_body]\n{}exec const {}: &'static str\n    ensures crate::sp::str_bytes({}) == seq![{}],\n{{ {} }}\n",
                    if *is_pub { "pub " } else { "pub " }, name, name, seq, lit));
            } else {
                let lit = format!("b\"{}\"", bytes.iter().map(|b| if b.is_ascii_graphic() && *b != b'"' && *b != b'\\' { (*b as char).to_string() } else { format!("\\x{:02x}", b) }).collect::<String>());
                consts_txt.push_str(&format!(
                    "#[verifier::external_body]\n{}exec const {}: &'static [u8]\n    ensures {}@ == seq![{}],\n{{ {} }}\n",
                    if *is_pub { "pub " } else { "pub " }, name, name, seq, lit));
            }
        }
        text = format!("{}\n{}", consts_txt, text);
        // Ghost items go FIRST in their module.  Verus orders solver contexts by a depth-first walk of the call graph in
        // source order, and the body of a trait-method impl (`decode`, `encode`, `eq`, `from`) has no graph edge to the
        // spec functions of the matching `...SpecImpl` block: it sees their definitions only if they were emitted earlier.
        if let Some(extra) = contracts.modules.get(if module.is_empty() { "root" } else { module }) {
            text = format!("// ---- ghost text from contracts (@module), placed before the extracted code\n{}\n// ---- end of ghost text\n{}", extra, text);
        }
        let fname = if module.is_empty() { "root".to_string() } else { module.replace("::", "__") };
        fs::write(format!("{}/code_{}.rs", out_dir, fname), text).unwrap();
        log_all.push(json!({"file": path, "module": module, "rules": log}));
    }

    // literal constants (N4) go to the root module
    let mut lit_txt = String::new();
    for (name, bytes) in &lits {
        let seq = bytes.iter().map(|b| format!("{:#04x}u8", b)).collect::<Vec<_>>().join(", ");
        let lit = format!("b\"{}\"", bytes.iter().map(|b| if b.is_ascii_graphic() && *b != b'"' && *b != b'\\' { (*b as char).to_string() } else { format!("\\x{:02x}", b) }).collect::<String>());
        let seq_expr = if bytes.is_empty() { "Seq::<u8>::empty()".to_string() } else { format!("seq![{}]", seq) };
        lit_txt.push_str(&format!(
            "#[verifier::external_body]\npub exec const {}: &'static [u8]\n    ensures {}@ == {},\n{{ {} }}\n",
            name, name, seq_expr, lit));
    }
    fs::write(format!("{}/code_literals.rs", out_dir), lit_txt).unwrap();
    // `@module ghost_first`: ghost trait-extension impls (`...SpecImpl for <crate type>`) that the assembler puts in a module
    // BEFORE all extracted code (see the comment on ghost placement above)
    fs::write(format!("{}/ghost_first.rs", out_dir), contracts.modules.get("ghost_first").cloned().unwrap_or_default()).unwrap();

    // unused contracts = function not found in source
    for (k, f) in &contracts.fns {
        if !f.used {
            lost.push(format!("LOST-FN {} (contract in {})", k, f.file));
        }
    }
    for k in contracts.traits.keys() {
        if !contracts.used_traits.contains(k) {
            lost.push(format!("LOST-ITEMS {}", k));
        }
    }
    let out = json!({"rules": log_all, "lost": lost, "fuzzy": fuzzy, "renamed": renamed, "locals": locals_all, "shapes": shapes_all, "functions": fn_index, "dropped": dropped_log,
                     "literals": lits.iter().map(|(k, v)| (k.clone(), json!(String::from_utf8_lossy(v)))).collect::<BTreeMap<_, _>>()});
    fs::write(format!("{}/extract_log.json", out_dir), serde_json::to_string_pretty(&out).unwrap()).unwrap();
    // lost anchors do not stop the run: the driver treats failures inside the affected functions as UNDECIDED
    for l in &lost {
        eprintln!("{}", l);
    }
}
