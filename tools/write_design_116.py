#!/usr/bin/env python3
"""usage: write_design_116.py <round_dir>  -- rewrites section 11.6 of DESIGN.md from the tables of tools/collect_round.py
(<round_dir>/table.md).  The narrative is kept here so that numbers and text cannot drift apart."""
import os, sys
V = os.path.normpath(os.path.join(os.path.dirname(os.path.abspath(__file__)), '..'))
rd = sys.argv[1]
p = os.path.join(V, 'DESIGN.md')
s = open(p).read()
tbl = open(os.path.join(rd, 'table.md')).read().strip().split('\n')
i2 = [i for i, l in enumerate(tbl) if l.startswith('| behaviour-preserving change')][0]
t1 = '\n'.join(tbl[:i2]).strip()
t2 = '\n'.join(l for l in tbl[i2:] if l.startswith('|'))
rows = [l for l in tbl[:i2] if l.startswith('| ') and not l.startswith('| change') and not l.startswith('|---')]


def cnt(pref):
    r = [l for l in rows if l.split('|')[1].strip().startswith(pref)]
    rep = [l for l in r if 'not reported' not in l]
    tgt = [l for l in rep if (' ' + l.split('|')[2].strip() + ':') in (' ' + l.split('|')[3])]
    return len(r), len(rep), len(tgt)


b = [cnt('C'), cnt('b2_'), cnt('b3_'), cnt('b4_'), cnt('b5_')]
od = cnt('orig_')
hl = t2.split('\n')[2:]
h_total = len(hl)
h_alarm = len([l for l in hl if l.split('|')[3].strip() != 'none'])
h_full = len([l for l in hl if l.split('|')[3].strip() == 'none' and l.split('|')[4].strip() == '-'])
missed = [l.split('|')[1].strip() for l in rows if 'not reported' in l]
tot = sum(x[0] for x in b)
rep = sum(x[1] for x in b)
a = s.index('### 11.6 Seeded changes: which check catches which')
e = s.index('### 11.7 ') if '### 11.7 ' in s else s.index("---------------------------------------------------------------------------\n\n## A. Feasibility spikes")
new = '''### 11.6 Seeded changes: which check catches which

**Where the changes come from.** Five batches of independent sub-agents, each agent given only the text of one
property and a scratch worktree of /repo (from batch 3 on one agent worked through four or five such assignments in turn),
produced changes that compile, pass the 38 baseline tests and the doc tests, and come with a demonstration test that
passes on the unchanged tree and fails with the change. I re-ran all of that myself for every change kept
(`confirmed_by_me` in `seeded/<id>/meta.json`; demos that need optional features were run with `--all-features`).
Batch 1 (`seeded/Cxx_n`, 32 changes) was written before any of the mechanisms of 11.4 existed and drove their design;
batches 2 to 5 (`seeded/b2_*` .. `seeded/b5_*`, 34 each) were only *measured*: batch 3's authors were asked to aim at the
optional-feature code, getters/setters/builder, boundary arithmetic and rare paths; batch 4's at error kinds, returned
values, stored bytes at boundary values, behaviour exactly at limits; batch 5's at what a well-meaning pull request does
("performance" rewrites that avoid an allocation or an encoding step, "simplifications" that merge two code paths,
"robustness" tweaks that tolerate malformed input, reuse of a value computed before an update). After each batch the
misses were analysed and, where the cause was a defect of the machinery rather than of reach -- or a *family* of change that
several independent authors had produced --, the machinery was extended (see the end of this section) and every batch
re-run. `seeded/orig_D*` are the reverse patches of the eleven `fix:` commits.
`seeded/harmless/` holds %d **behaviour-preserving** refactorings written by eight further sub-agents (`E*`/`F*` deliberately
invasive: extracted helpers, loops turned into iterator chains, `match` turned into `if` chains; `G*` aimed at exactly the
functions and idioms the later extensions reach: `Display for NodeId` with `{:02x}`, `CombinedKey::enr_to_public` as a
`match` or with hand-written closures, the socket getters with `?`/`match`/`zip`, `set_socket`, `from_str`; `I*` likewise at
`serde_hex_prfx::deserialize`, `Builder::add_public_key`/`add_value`, `Debug for NodeId`, `Deserialize for Enr`; `H*` and `J*`, ten
written by me, cover edit kinds the others did not: reworded error texts, equivalent comparisons and overflow tests, no-op
statements, attributes, independent statements in another order) (tests pass,
rationale in the `.txt` next to each patch). `tools/run_seeded.py <patch>` applies one change (to /repo, or with
`VP_SEED_SCRATCH=1` to a throw-away copy), runs the 17 registered quick checks and undoes it; `tools/collect_round.py`
writes the `meta.json` files and the tables below (last round, committed tree); `tools/write_design_116.py` writes this section.

**Result of the last round.** batch 1: %d of %d reported (%d by the property the author aimed at); batch 2: %d of %d (%d);
batch 3: %d of %d (%d); batch 4: %d of %d (%d); batch 5: %d of %d (%d) -- %d of %d in all; re-introduced defects: %d of %d;
behaviour-preserving changes: %d, of which reported as a violation: **%d**, fully decided (all 17 checks exit 0): %d, the rest
UNDECIDED (exit 2) for some properties. On first contact (before any extension prompted by the batch) batch 4 stood at
27 of 34 and batch 5 at 21 of 34; no change of batch 4 or 5 left every check at exit 0.

Read the first table as "target = what the author aimed at; VIOLATION column = which checks exit 1 and on which
obligation". A change is often reported by a neighbouring property as well (a decoder that accepts duplicate keys breaks
C02 *and* C04); since attribution is by labelled clause only, a property is never reported merely because it shares a
function with the broken one. UNDECIDED entries are exit 2 with the reason in the evidence file.

''' % ((h_total,) + tuple(x for t in b for x in (t[1], t[0], t[2])) + (rep, tot, od[1], od[0], h_total, h_alarm, h_full)) + t1 + '''

**Not reported** (%s): every one of them is UNDECIDED (exit 2) for the properties in the last column, except `b3_C13_2`
(exit 0 everywhere). The reasons, by group:

* *iterator adapters* -- Verus has no specifications for `zip`, `all`, `map`, `sum`, `filter` on iterators:
  `compare_content` rewritten as `self.iter().zip(other.iter()).all(..)` (`C15_1`, `b2_C15_2`, `b3_C15_1`, `b4_C15_1`,
  `b5_C15_1`: **five independent authors produced this same change**; it compares a proper prefix equal), `client_info`
  through `.iter().map(..)` + `next()?` (`b3_C14_1`, `b5_C14_2`), `remove_insert`'s early return on
  `removed.iter().all(Option::is_none)` (`b5_C07_2`), hand-computed payload lengths with `.iter().map(..).sum()`
  (`b5_C04_2`, `b5_C13_2`), `BTreeMap::values` (`orig_D6`). A specification of `zip(..).all(eq)` as a stand-in was
  considered and rejected: a *correct* in-place comparison would need an injectivity lemma the hints cannot supply at an
  unknown place, so the stand-in would have to stay under the novelty guard and decide nothing.
* *library functions without a usable contract*: `Option::filter` with a fresh closure (`b5_C08_1`), `try_into` on slices (`b3_C17_2`), `<[u8]>::strip_prefix` (`b4_C10_1`),
  `eq_ignore_ascii_case` + `str` slicing (`b5_C03_1`), a `&mut [u8]` used as `BufMut` (`b5_C03_2`), a second base64 engine
  and a fresh closure (`b5_C12_1`), copying into a fixed array with `min`/range slicing (`b3_C01_2`), a helper without
  contract (`orig_D5`), `insert_raw_rlp` restructured beyond the hints (`b3_C15_2`).
* *stand-in coverage*: k256 / ed25519 / zeroize items the stand-ins do not have (`b2_C17_1` `NonZeroScalar`, `b4_C17_2`
  `Zeroizing`, `b3_C17_1` `ed25519::SecretKey`, `b5_C17_1` `SigningKey::from_bytes`): the module's bodies are dropped.
* *out of reach for both engines*: `b5_C16_2` left-pads the hex text with `format!("{src:0>64}")` in `NodeId`'s deserialiser
  -- a `format!` in *value* position with a spec N6 does not model is not replaced by an arbitrary string (that would
  over-approximate a value, and a proof failing on the over-approximation says nothing): the function is UNDECIDED for
  Verus, and the Kani harness times out on the formatting code.
* *error kinds of the decoder*: the contract of `decode` fixes Ok/Err and the value, not *which* `alloy_rlp::Error` is
  returned; `b3_C13_2` changes only the error reported for a malformed item followed by more than 300 bytes. A clause that
  names the cause of each error needs the error values of `K::enr_to_public` and of every alloy-rlp call in the
  specification; not built.

Behaviour-preserving changes -- no check may exit 1 on any of them:

''' % ', '.join('`%s`' % m for m in missed) + t2 + '''

**What the batches changed in the machinery** (each item was a defect of the machinery, a gap of reach found by a measured
miss or alarm, or a recurring family; every batch was re-run afterwards):

* batch 2: `b2_C14_1` (wrong key constant in `set_socket`) and two others surfaced only as failed *hint assertions* ->
  the assertions and loop invariants that carry a property were labelled (`[C08.*.effect]`, `[C05.*.valid]`, ...);
  `b2_C07_1`, `b2_C02_2` ran out of resources in the whole-crate query -> the retry verifies the function alone;
  `b2_C11_2` made a *library lemma* run out of resources (context-dependent instability) -> heavy lemmas and the big
  functions use `spinoff_prover`, definitions are hidden where not needed; `b2_C16_2` (serde of `NodeId`) -> Kani harness.
* harmless batch 1: `B4`, `B5` were reported once `prelude/` knew enough library functions -> novelty guard (11.4 item 6);
  harmless batch 2: `D6` was reported because a labelled hint assertion is a statement about a program point -> such
  assertions decide nothing once the statements of the function moved; the exit hint of `from_str` became conditional on the
  result.
* batch 3: `b3_C08_2` (wrong error kind, exit 0 everywhere) -> the error-kind clauses were too weak (`SigningError => true`);
  they now name the cause exactly. `b3_C04_1` exposed that a rustc error whose text contains "is not satisfied" was
  classified as a semantic failure -> diagnostics with a rustc error code are tool errors. `b3_C01_1`, `b3_C11_2`,
  `b3_C01_2`, `b3_C07_2`, `b3_C12_2` needed stand-in items / dependency constants that were missing (tool error -> UNDECIDED).
* batch 4 (27 of 34 on first contact): `b4_C16_1` and `b4_C17_2` made *all 17* checks UNDECIDED (a diagnostic inside a
  `write!` expansion could not be mapped to a function; an import the stand-ins lack) -> both are now contained to the
  function / module concerned (11.4 item 5).
* While writing the contracts of the second secp256k1 back-end a genuine defect of the repository was found (D11, 11.5).
* *Recurring families* (the same change written by several independent authors; worth reaching because whoever seeds changes
  next is likely to write them again):
  the **precedence rule of `CombinedKey::enr_to_public`** rewritten with swapped / nested closures or an `if contains_key`
  (`C11_1`, `b2_C11_1`, `b3_C11_1`, `b4_C11_2`, `b5_C11_2`) -> closure contracts attached by content (11.4), a closure
  written with another parameter name matches after renaming, `.as_slice()` on a byte-string constant; all five reported
  (`C11.combined.precedence`), the equivalent rewrites `G4`/`G5` verify.
  **`tcp6`/`udp6` falling back to the IPv4 port** (`b2_C14_2`, `b4_C14_2`) -> `Option::or`/`or_else` specified, a closure that
  only calls a port getter carries the getter's contract.
  **`to_canonical()` in `set_socket`** (`b3_C14_2`, `b4_C08_2`) -> `IpAddr::to_canonical`, `Ipv6Addr::to_canonical` /
  `to_ipv4_mapped` specified (an IPv4-mapped address becomes that IPv4 address).
  **`{:x}` instead of `{:02x}` in `Display for NodeId`** (`b2_C16_1`, `b3_C16_2`, `b4_C16_1`, `b5_C16_1`) -> N6 understands
  named and lower-hex holes, N16 rewrites the `let [a, b, .., y, z] = self.raw;` all but one of the authors used, and the
  proof of `fmt` no longer hangs on a statement in the middle of the body; the three correct rewrites `G1`..`G3` verify.
  **white-space tolerance in `from_str`** (`b2_C12_2`) -> `str::trim*` specified (T18).
  **`entry(key).or_insert*(..)` in `Builder::add_public_key`** (`b3_C08_1`, `b5_C08_2`: an existing entry is kept, so a builder
  used twice, or given a `secp256k1` value by hand, yields a record with the wrong key) -> N17 writes the statement as "insert
  unless present"; the same value stored with a plain `insert` verifies (tried).
  **prefix handling of `NodeId`'s deserialiser** (`b2_C16_2`, `b3_C16_1`: `trim_start_matches("0x")` strips the prefix any
  number of times; CBMC times out on the `str` searcher) -> `serde_hex_prfx::deserialize` is verified by Verus (N18, N19,
  11.3): both reported as `C16.serde.de_helper`; four equivalent rewrites (`match` on `strip_prefix`, a `&str` binding first,
  an explicit `match` on `from_hex`, `raw.as_ref()`) verify or are UNDECIDED, and `starts_with` + `&raw[2..]` -- correct, but
  its panic-freedom needs UTF-8 reasoning -- is UNDECIDED by the new rule 11 of 11.4 (it was reported before that rule).
  One family stays out of reach and is listed above: `compare_content` via `zip(..).all(..)` (five authors).
* a latent false alarm found on the way: `format!("enr:{}", hex)` (positional instead of inline argument, same text) in
  `to_base64` was turned into an *arbitrary* string by N6's fall-back for error texts, and the postcondition then failed.
  N6 now models positional `{}` holes, and applies the arbitrary-string fall-back only in error position (`Err(..)`,
  `map_err`, `ok_or`, `ok_or_else`, `expect`); elsewhere an unmodelled `format!` makes the function UNDECIDED.
* a reordering that is **not** behaviour-preserving although it looks it: moving `set_socket`'s public-key insert in front of the
  address inserts is reported (`C05.set_socket.rekey`, `C08.set_socket.effect`). For the built-in key types nothing changes,
  but the properties speak of every key type: a scheme whose entry name is one of `ip`, `ip6`, `tcp`, .. would have its key
  overwritten -- the same mechanism as defect D5 in `remove_insert`. It is not in `seeded/harmless/`.
* *by the target property*: after round 19 one change in seven was reported only by a neighbouring property's check (123 of
  143 by the property the author aimed at). The clauses concerned now also carry the label of the property they are the
  reason for (11.1 item 4), and C13's exit 0 on `b3_C13_1` became UNDECIDED (a failed assertion of another property in the same
  function).
* *resource limit on a proof that cannot succeed*: a changed socket remover (two `remove_insert` calls instead of one, ..) makes
  the solver search until the budget is used up, also in the retry run with six times the budget, and a function that runs
  out of resources had all its verdicts set to UNDECIDED; which of `C07_2`, `b2_C06_2`, `b3_C06_1` ended that way differed from
  round to round. Now an obligation that fails in BOTH runs (whole crate / function alone with the larger budget) is reported
  even though the function also ran out of resources (11.4 item 7); all three are reported.
* the campaign itself runs six checks at a time: pruning of the result cache deleted an entry another run was about to read
  (one run ended with exit 2 "internal error of the checker") -> entries younger than two hours are never pruned.

'''
s = s[:a] + new + s[e:]
open(p, 'w').write(s)
print(tbl[-1])
