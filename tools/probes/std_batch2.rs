use vstd::prelude::*;
verus! {
fn t_cloned(o: Option<&u8>) -> (r: Option<u8>) ensures r == (match o { Some(v) => Some(*v), None => None::<u8> }) { o.cloned() }
fn t_first(v: &[u8]) -> (r: Option<&u8>) ensures r == (if v@.len() > 0 { Some(&v@[0]) } else { None::<&u8> }) { v.first() }
fn t_last(v: &[u8]) -> (r: Option<&u8>) ensures r == (if v@.len() > 0 { Some(&v@[v@.len() - 1]) } else { None::<&u8> }) { v.last() }
fn t_as_ref(o: &Option<u8>) -> (r: Option<&u8>) ensures r == (match o { Some(v) => Some(v), None => None::<&u8> }) { o.as_ref() }
fn t_truncate(v: &mut Vec<u8>) ensures final(v)@ == (if old(v)@.len() > 2 { old(v)@.subrange(0, 2) } else { old(v)@ }) { v.truncate(2) }
fn t_starts_with(s: &[u8], x: &[u8]) -> (r: bool) ensures r == (s@.len() >= x@.len() && s@.subrange(0, x@.len() as int) == x@) { s.starts_with(x) }
}
fn main() {}
