import re,subprocess
tests = {
'map': 'fn t(o: Option<u8>) -> (r: Option<u16>) ensures r == (match o { Some(v) => Some(v as u16), None => None::<u16> }) { o.map(|v: u8| -> (w: u16) ensures w == v as u16 { v as u16 }) }',
'and_then': 'fn t(o: Option<u8>) -> (r: Option<u16>) ensures r == (match o { Some(v) => Some(v as u16), None => None::<u16> }) { o.and_then(|v: u8| -> (w: Option<u16>) ensures w == Some(v as u16) { Some(v as u16) }) }',
'ok_or_else': 'fn t(o: Option<u8>) -> (r: Result<u8, u16>) ensures r == (match o { Some(v) => Ok::<u8,u16>(v), None => Err::<u8,u16>(3u16) }) { o.ok_or_else(|| -> (w: u16) ensures w == 3 { 3u16 }) }',
'map_err': 'fn t(o: Result<u8, u8>) -> (r: Result<u8, u16>) ensures r == (match o { Ok(v) => Ok::<u8,u16>(v), Err(e) => Err::<u8,u16>(e as u16) }) { o.map_err(|e: u8| -> (w: u16) ensures w == e as u16 { e as u16 }) }',
'unwrap_or_else': 'fn t(o: Option<u8>) -> (r: u8) ensures r == (match o { Some(v) => v, None => 3u8 }) { o.unwrap_or_else(|| -> (w: u8) ensures w == 3 { 3u8 }) }',
'rmap': 'fn t(o: Result<u8, u8>) -> (r: Result<u16, u8>) ensures r == (match o { Ok(v) => Ok::<u16,u8>(v as u16), Err(e) => Err::<u16,u8>(e) }) { o.map(|v: u8| -> (w: u16) ensures w == v as u16 { v as u16 }) }',
'str_len': 'fn t(s: &str) -> (r: usize) ensures r >= 0 { s.len() }',
'str_is_empty': 'fn t(s: &str) -> (r: bool) ensures r == (s@.len() == 0) { s.is_empty() }',
'str_split_at': 'fn t(s: &str) -> (r: (&str, &str)) requires s@.len() == 0 { s.split_at(0) }',
'str_as_bytes': 'fn t(s: &str) -> (r: &[u8]) ensures r@.len() >= 0 { s.as_bytes() }',
'str_to_string': 'fn t(s: &str) -> (r: String) ensures r@ == s@ { s.to_string() }',
'str_to_owned': 'fn t(s: &str) -> (r: String) ensures r@ == s@ { s.to_owned() }',
'string_as_str': 'fn t(s: &String) -> (r: &str) ensures r@ == s@ { s.as_str() }',
'string_len': 'fn t(s: &String) -> (r: usize) ensures r >= 0 { s.len() }',
'slice_get': 'fn t(s: &[u8], i: usize) -> (r: Option<&u8>) ensures r.is_some() == (i < s@.len()) { s.get(i) }',
'slice_get_range_to': 'fn t(s: &[u8], i: usize) -> (r: Option<&[u8]>) ensures r.is_some() == (i <= s@.len()) { s.get(..i) }',
'slice_split_at': 'fn t(s: &[u8], i: usize) -> (r: (&[u8], &[u8])) requires i <= s@.len() ensures r.0@ == s@.subrange(0, i as int) { s.split_at(i) }',
'slice_contains': 'fn t(s: &[u8], x: u8) -> (r: bool) ensures r == s@.contains(x) { s.contains(&x) }',
'slice_starts_with': 'fn t(s: &[u8], x: &[u8]) -> (r: bool) ensures r ==> s@.len() >= x@.len() { s.starts_with(x) }',
'slice_index_range': 'fn t(s: &[u8], i: usize) -> (r: &[u8]) requires i <= s@.len() ensures r@ == s@.subrange(0, i as int) { &s[..i] }',
'slice_last': 'fn t(v: &[u8]) -> (r: Option<&u8>) ensures r.is_some() == (v@.len() > 0) { v.last() }',
'vec_pop': 'fn t(v: &mut Vec<u8>) -> (r: Option<u8>) ensures r.is_some() == (old(v)@.len() > 0) { v.pop() }',
'vec_insert': 'fn t(v: &mut Vec<u8>) requires old(v)@.len() > 0 ensures final(v)@.len() == old(v)@.len() + 1 { v.insert(0, 1) }',
'vec_remove': 'fn t(v: &mut Vec<u8>) -> (r: u8) requires old(v)@.len() > 0 ensures final(v)@.len() == old(v)@.len() - 1 { v.remove(0) }',
'vec_new': 'fn t() -> (r: Vec<u8>) ensures r@.len() == 0 { Vec::new() }',
'vec_from_elem': 'fn t() -> (r: Vec<u8>) ensures r@.len() == 3 { vec![0u8; 3] }',
'btree_get': 'fn t(m: &std::collections::BTreeMap<u8, u8>, k: u8) -> (r: Option<&u8>) ensures r.is_some() == m@.contains_key(k) { m.get(&k) }',
'btree_insert': 'fn t(m: &mut std::collections::BTreeMap<u8, u8>) -> (r: Option<u8>) ensures final(m)@ == old(m)@.insert(1u8, 2u8) { m.insert(1, 2) }',
'btree_remove': 'fn t(m: &mut std::collections::BTreeMap<u8, u8>) -> (r: Option<u8>) ensures final(m)@ == old(m)@.remove(1u8) { m.remove(&1) }',
'btree_contains_key': 'fn t(m: &std::collections::BTreeMap<u8, u8>) -> (r: bool) ensures r == m@.contains_key(1u8) { m.contains_key(&1) }',
'btree_len': 'fn t(m: &std::collections::BTreeMap<u8, u8>) -> (r: usize) ensures r == m@.len() { m.len() }',
'btree_is_empty': 'fn t(m: &std::collections::BTreeMap<u8, u8>) -> (r: bool) ensures r == (m@.len() == 0) { m.is_empty() }',
'btree_values': 'fn t(m: &std::collections::BTreeMap<u8, u8>) { let _ = m.values(); }',
'btree_keys': 'fn t(m: &std::collections::BTreeMap<u8, u8>) { let _ = m.keys(); }',
'btree_clear': 'fn t(m: &mut std::collections::BTreeMap<u8, u8>) ensures final(m)@.len() == 0 { m.clear() }',
'checked_mul': 'fn t(a: u8, b: u8) -> (r: Option<u8>) ensures r == (if a * b <= 255 { Some((a * b) as u8) } else { None::<u8> }) { a.checked_mul(b) }',
'saturating_sub': 'fn t(a: u8, b: u8) -> (r: u8) ensures r == (if a >= b { (a - b) as u8 } else { 0u8 }) { a.saturating_sub(b) }',
'wrapping_sub': 'fn t(a: u8, b: u8) -> (r: u8) ensures r as int == (a - b) % 256 { a.wrapping_sub(b) }',
'to_be_bytes': 'fn t(a: u16) -> (r: [u8; 2]) ensures r@.len() == 2 { a.to_be_bytes() }',
'from_be_bytes': 'fn t(a: [u8; 2]) -> (r: u16) ensures r >= 0 { u16::from_be_bytes(a) }',
'leading_zeros': 'fn t(a: u16) -> (r: u32) ensures r <= 16 { a.leading_zeros() }',
'u8_from': 'fn t(a: u8) -> (r: u16) ensures r == a as u16 { u16::from(a) }',
'try_from_int': 'fn t(a: u16) -> (r: Result<u8, core::num::TryFromIntError>) ensures r.is_ok() == (a <= 255) { u8::try_from(a) }',
'usize_try_into': 'fn t(a: u64) -> (r: Result<usize, core::num::TryFromIntError>) ensures r.is_ok() { a.try_into() }',
'array_len': 'fn t(a: [u8; 4]) -> (r: usize) ensures r == 4 { a.len() }',
'slice_copy_from_slice': 'fn t(a: &mut [u8], b: &[u8]) requires old(a)@.len() == b@.len() ensures final(a)@ == b@ { a.copy_from_slice(b) }',
'mem_take': 'fn t(a: &mut Vec<u8>) -> (r: Vec<u8>) ensures r@ == old(a)@ { core::mem::take(a) }',
'bool_then': 'fn t(b: bool) -> (r: Option<u8>) ensures r.is_some() == b { b.then(|| -> (w: u8) { 1u8 }) }',
'opt_filter': 'fn t(o: Option<u8>) -> (r: Option<u8>) ensures r.is_some() ==> o.is_some() { o.filter(|v: &u8| -> (w: bool) { *v > 1 }) }',
'opt_or': 'fn t(o: Option<u8>, p: Option<u8>) -> (r: Option<u8>) ensures r == (if o.is_some() { o } else { p }) { o.or(p) }',
'opt_copied': 'fn t(o: Option<&u8>) -> (r: Option<u8>) ensures r.is_some() == o.is_some() { o.copied() }',
'opt_cloned': 'fn t(o: Option<&u8>) -> (r: Option<u8>) ensures r.is_some() == o.is_some() { o.cloned() }',
'res_and_then': 'fn t(o: Result<u8,u8>) -> (r: Result<u16,u8>) ensures r == (match o { Ok(v) => Ok::<u16,u8>(v as u16), Err(e) => Err::<u16,u8>(e) }) { o.and_then(|v: u8| -> (w: Result<u16,u8>) ensures w == Ok::<u16,u8>(v as u16) { Ok(v as u16) }) }',
'res_unwrap_or': 'fn t(o: Result<u8,u8>) -> (r: u8) ensures r == (match o { Ok(v) => v, Err(_) => 9u8 }) { o.unwrap_or(9) }',
'res_ok_and': 'fn t(o: Result<u8,u8>) -> (r: bool) ensures r ==> o.is_ok() { o.is_ok_and(|v: u8| -> (w: bool) { v > 1 }) }',
'opt_is_some_and': 'fn t(o: Option<u8>) -> (r: bool) ensures r ==> o.is_some() { o.is_some_and(|v: u8| -> (w: bool) { v > 1 }) }',
}
res={}
for name,code in tests.items():
    src='use vstd::prelude::*;\nverus! {\n'+code+'\n}\nfn main() {}\n'
    open('t.rs','w').write(src)
    r=subprocess.run(['verus','t.rs'],stdout=subprocess.PIPE,stderr=subprocess.STDOUT,text=True)
    o=r.stdout
    if 'is not supported' in o: res[name]='UNSUPPORTED'
    elif '1 verified, 0 errors' in o or re.search(r'(\d+) verified, 0 errors',o): res[name]='FULL'
    elif 'verification results' in o: res[name]='WEAK'
    else: res[name]='ERR '+[l for l in o.split('\n') if l.startswith('error')][0][:100] if [l for l in o.split('\n') if l.startswith('error')] else 'ERR?'
for k,v in res.items(): print(k,v)
