use vstd::prelude::*;
verus! {
fn t_unwrap_or(o: Option<u8>) -> (r: u8) ensures r == (match o { Some(v) => v, None => 7u8 }) { o.unwrap_or(7) }
fn t_ok(o: Result<u8, u16>) -> (r: Option<u8>) ensures r == (match o { Ok(v) => Some(v), Err(_) => None::<u8> }) { o.ok() }
fn t_err(o: Result<u8, u16>) -> (r: Option<u16>) ensures r == (match o { Ok(_) => None::<u16>, Err(e) => Some(e) }) { o.err() }
fn t_ok_or(o: Option<u8>) -> (r: Result<u8, u16>) ensures r == (match o { Some(v) => Ok::<u8,u16>(v), None => Err::<u8,u16>(3u16) }) { o.ok_or(3u16) }
fn t_is_some(o: Option<u8>) -> (r: bool) ensures r == o.is_some() { o.is_some() }
fn t_is_none(o: Option<u8>) -> (r: bool) ensures r == o.is_none() { o.is_none() }
fn t_is_ok(o: Result<u8, u16>) -> (r: bool) ensures r == o.is_ok() { o.is_ok() }
fn t_is_err(o: Result<u8, u16>) -> (r: bool) ensures r == o.is_err() { o.is_err() }
fn t_unwrap(o: Option<u8>) -> (r: u8) requires o.is_some() ensures Some(r) == o { o.unwrap() }
fn t_expect(o: Option<u8>) -> (r: u8) requires o.is_some() ensures Some(r) == o { o.expect("x") }
fn t_runwrap(o: Result<u8,u16>) -> (r: u8) requires o.is_ok() ensures Ok::<u8,u16>(r) == o { o.unwrap() }
fn t_unwrap_or_default(o: Option<u8>) -> (r: u8) ensures r == (match o { Some(v) => v, None => 0u8 }) { o.unwrap_or_default() }
fn t_as_ref(o: &Option<u8>) -> (r: Option<&u8>) ensures r.is_some() == o.is_some() { o.as_ref() }
fn t_take(o: &mut Option<u8>) -> (r: Option<u8>) ensures r == *old(o), *final(o) == None::<u8> { o.take() }
fn t_checked_add(a: u8, b: u8) -> (r: Option<u8>) ensures r == (if a + b <= 255 { Some((a + b) as u8) } else { None::<u8> }) { a.checked_add(b) }
fn t_checked_sub(a: u8, b: u8) -> (r: Option<u8>) ensures r == (if a >= b { Some((a - b) as u8) } else { None::<u8> }) { a.checked_sub(b) }
fn t_saturating_add(a: u8, b: u8) -> (r: u8) ensures r == (if a + b <= 255 { (a + b) as u8 } else { 255u8 }) { a.saturating_add(b) }
fn t_wrapping_add(a: u8, b: u8) -> (r: u8) ensures r as int == (a + b) % 256 { a.wrapping_add(b) }
fn t_vec_len(v: &Vec<u8>) -> (r: usize) ensures r == v@.len() { v.len() }
fn t_vec_push(v: &mut Vec<u8>, x: u8) ensures final(v)@ == old(v)@.push(x) { v.push(x) }
fn t_vec_is_empty(v: &Vec<u8>) -> (r: bool) ensures r == (v@.len() == 0) { v.is_empty() }
fn t_slice_len(v: &[u8]) -> (r: usize) ensures r == v@.len() { v.len() }
fn t_slice_is_empty(v: &[u8]) -> (r: bool) ensures r == (v@.len() == 0) { v.is_empty() }
fn t_vec_clear(v: &mut Vec<u8>) ensures final(v)@.len() == 0 { v.clear() }
fn t_vec_as_slice(v: &Vec<u8>) -> (r: &[u8]) ensures r@ == v@ { v.as_slice() }
fn t_vec_extend(v: &mut Vec<u8>, s: &[u8]) ensures final(v)@ == old(v)@ + s@ { v.extend_from_slice(s) }
fn t_slice_first(v: &[u8]) -> (r: Option<&u8>) ensures r.is_some() == (v@.len() > 0) { v.first() }
fn t_vec_clone(v: &Vec<u8>) -> (r: Vec<u8>) ensures r@ == v@ { v.clone() }
fn t_vec_with_capacity() -> (r: Vec<u8>) ensures r@.len() == 0 { Vec::with_capacity(4) }
fn t_vec_truncate(v: &mut Vec<u8>) ensures final(v)@.len() <= 2 { v.truncate(2) }
fn t_swap(a: &mut u8, b: &mut u8) ensures *final(a) == *old(b), *final(b) == *old(a) { core::mem::swap(a, b) }
}
fn main() {}
