#!/usr/bin/env python3
"""usage: run_seeded.py <patch.diff> [props...]  -- apply a patch to /repo, run the registered quick checks, undo the patch.
Prints one line per property: exit status and the obligations reported."""
import json, os, re, subprocess, sys
V = os.path.normpath(os.path.join(os.path.dirname(os.path.abspath(__file__)), '..'))
patch = os.path.abspath(sys.argv[1])
props = sys.argv[2:] or [json.loads(l)['id'] for l in open(os.path.join(V, 'properties.jsonl'))]
# VP_SEED_SCRATCH=1: work on a throw-away copy of /repo (for campaigns that must not touch the working tree); the default is
# the prescribed way: apply to /repo, run, undo
scratch = None
env = dict(os.environ)
if os.environ.get('VP_SEED_SCRATCH'):
    import tempfile, shutil
    scratch = tempfile.mkdtemp(prefix='vp_seedrepo_')
    subprocess.run('cd /repo && tar c --exclude=./target --exclude=./.git . | tar -x -C %s' % scratch, shell=True, check=True)
    subprocess.run(['git', 'init', '-q'], cwd=scratch)
    r = subprocess.run(['git', 'apply', patch], cwd=scratch)
    env['VP_REPO'] = scratch
    env['VP_EVIDENCE_DIR'] = os.path.join(scratch, '.vp_evidence')
else:
    r = subprocess.run(['git', '-C', '/repo', 'apply', patch])
if r.returncode != 0:
    print('patch does not apply'); sys.exit(2)
res = {}
try:
    for p in props:
        r = subprocess.run([os.path.join(V, 'bin', 'vp'), 'check', p, '--tier', 'quick'], cwd=V, env=env, stdout=subprocess.PIPE, stderr=subprocess.STDOUT, text=True)
        obl = sorted(set(re.findall(r'obligation=(\S+)', r.stdout)))
        und = re.findall(r'UNDECIDED.*', r.stdout)
        res[p] = {'exit': r.returncode, 'obligations': obl, 'undecided': und[:1]}
        print(p, 'exit=%d' % r.returncode, ' '.join(obl)[:300], (und[0][:200] if und else ''))
finally:
    if scratch:
        shutil.rmtree(scratch, ignore_errors=True)
    else:
        subprocess.run(['git', '-C', '/repo', 'checkout', '--', '.'])
json.dump(res, open(os.environ.get('VP_SEED_OUT', '/tmp/seeded_last.json'), 'w'), indent=1)
