#!/usr/bin/env python3
"""Computes contracts/hint_baseline.json on the UNCHANGED tree: for every function that carries proof hints, and for every
single hint h of it, the obligations that FAIL when the function is verified with h left out -- plus the entry "ALL" (no hint at
all).  The checker uses it only for functions whose hints could not be placed exactly on a changed tree (statement edited,
moved or deleted): an obligation that fails there but does not fail in the same hint configuration on the unchanged tree is
"an obligation that passed on the unchanged tree and now fails"; an obligation that already fails in that configuration is
UNDECIDED.  Run by hand (tools/gen_hint_baseline.py) whenever contracts/, prelude/ or spec/ change; the output is committed and
carries a hash of its inputs -- a stale file is ignored (everything inside a restructured function is then UNDECIDED)."""
import json, os, re, sys, shutil, hashlib, glob
from concurrent.futures import ThreadPoolExecutor
V = os.path.normpath(os.path.join(os.path.dirname(os.path.abspath(__file__)), '..'))
sys.path.insert(0, os.path.join(V, 'lib'))
import vpdriver as D
from vpanalyze import GenIndex, failures, fsig, inputs_hash

norm = lambda k: re.sub(r'\s+', '', str(k))
base_cfg = json.load(open(os.path.join(V, 'contracts', 'extract.json')))
root = os.path.join(D.BUILD, 'hint_baseline')
shutil.rmtree(root, ignore_errors=True)
os.makedirs(root)

# reference generation: which functions carry which hints
path0, log0, err = D.gen(os.path.join(root, 'ref'))
assert not err, err
assert not log0.get('lost') and not log0.get('fuzzy'), 'the baseline must be computed on the unchanged tree'
gi0 = GenIndex(path0)
# what every function calls / how many closures it holds on the unchanged tree (novelty guard of the checker)
shapes0 = dict(log0.get('shapes', {}))
cfg_secp = os.path.join(V, 'contracts', 'extract_secp.json')
if os.path.exists(cfg_secp):
    # functions that only the all-features configuration has (keys::rust_secp256k1::*)
    _p, log_s, err_s = D.gen(os.path.join(root, 'ref_secp'), extract_cfg=cfg_secp)
    assert not err_s, err_s
    for k, v in log_s.get('shapes', {}).items():
        shapes0.setdefault(k, v)
json.dump(shapes0, open(os.path.join(V, 'contracts', 'shape_baseline.json'), 'w'), indent=0, sort_keys=True)
# locals of the hinted functions on the unchanged tree: vpx follows a renamed local by matching its declaration against these
json.dump(dict((k, v) for k, v in log0.get('locals', {}).items()), open(os.path.join(V, 'contracts', 'locals_baseline.json'), 'w'), indent=0, sort_keys=True)
hints = gi0.hints_of()
closure_fns = set()
for f in sorted(glob.glob(os.path.join(V, 'contracts', '*.vpc'))):
    cur = None
    for line in open(f):
        t = line.strip()
        if t.startswith('@fn '):
            cur = norm(t[4:])
        elif t.startswith('@closure') and cur:
            m = re.match(r'@closure\s+(\d+)', t)
            if m:   # content-matched contracts (@closure-like) are optional: not part of a hint configuration
                hints.setdefault(cur, [])
                hints[cur].append('closure#%s' % m.group(1))
        elif t.startswith('@end'):
            cur = None
where = {}
for (ln, nm, key, src) in gi0.fn_at:
    if key and norm(key) in hints:
        where[norm(key)] = (gi0.module_of(ln), nm)

jobs = []
for k, hs in sorted(hints.items()):
    if k not in where:
        print('skipping', k, '(not found in generated text)')
        continue
    jobs.append((k, 'ALL'))
    for h in hs:
        jobs.append((k, h))


def run(job):
    k, h = job
    out = os.path.join(root, re.sub(r'[^A-Za-z0-9]', '_', k) + '__' + re.sub(r'[^A-Za-z0-9]', '_', h))
    os.makedirs(out, exist_ok=True)
    skip = set() if h == 'ALL' else {h}
    mod, nm = where[k]
    ent = None
    for attempt in range(8):
        cfg = dict(base_cfg)
        if h == 'ALL':
            cfg['nohint_fns'] = [k]
        else:
            cfg['skip_hints'] = {k: sorted(skip)}
        cfgp = os.path.join(out, 'extract.json')
        json.dump(cfg, open(cfgp, 'w'))
        path, log, err = D.gen(out, extract_cfg=cfgp)
        if err:
            return job, None, {'tool': True, 'why': 'gen: ' + str(err)[:200]}
        r = D.run_verus(path, ['--verify-only-module', mod, '--verify-function', '*::' + nm], timeout=1200)
        gi = GenIndex(path)
        fl = [f for f in failures(gi, r['diags'])]
        if any('could not find function' in f['message'] for f in fl):
            r = D.run_verus(path, ['--verify-only-module', mod], timeout=1200)
            fl = [f for f in failures(gi, r['diags'])]
        mine = [f for f in fl if norm(f['fn']) == k]
        # the same cascade as the checker: a hint that no longer compiles because it used a ghost variable of a hint that is
        # gone is left out as well
        more = set(f['hint'][1] for f in mine if f['kind'] == 'tool' and f.get('hint') and norm(f['hint'][0]) == k) - skip
        if more and h != 'ALL':
            skip |= more
            continue
        if any(f['kind'] == 'rlimit' for f in mine):
            # the same retry as the checker: six times the budget
            r = D.run_verus(path, ['--verify-only-module', mod, '--verify-function', '*::' + nm, '--rlimit', '60'], timeout=2400)
            fl = [f for f in failures(gi, r['diags'])]
            mine = [f for f in fl if norm(f['fn']) == k]
        other_tool = [f for f in fl if f['kind'] == 'tool' and norm(f['fn']) != k]
        ent = {'tool': any(f['kind'] == 'tool' for f in mine) or bool(other_tool) or r.get('timeout', False) or not r.get('json'),
               'rlimit': any(f['kind'] == 'rlimit' for f in mine),
               'failed': sorted(set(fsig(f) for f in mine if f['kind'] == 'semantic'))}
        if ent['tool']:
            ent['why'] = '; '.join(f['message'][:100] for f in (mine + other_tool) if f['kind'] == 'tool')[:300]
        break
    shutil.rmtree(out, ignore_errors=True)
    return job, ('ALL' if h == 'ALL' else '+'.join(sorted(skip))), (ent or {'tool': True, 'why': 'cascade did not converge'})


baseline = {}
with ThreadPoolExecutor(max_workers=10) as ex:
    for (k, h), final, ent in ex.map(run, jobs):
        baseline.setdefault(k, {})[final or h] = ent
        print('%-60s %-12s -> %-40s tool=%s rlimit=%s failed=%d' % (k, h, final, ent['tool'], ent.get('rlimit'), len(ent.get('failed', []))))
baseline['_inputs_hash'] = inputs_hash()
json.dump(baseline, open(os.path.join(V, 'contracts', 'hint_baseline.json'), 'w'), indent=1, sort_keys=True)
shutil.rmtree(root, ignore_errors=True)
print('functions with hints: %d; configurations: %d' % (len(baseline) - 1, len(jobs)))
