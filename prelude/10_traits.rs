// ===================================================================================
// TRUSTED PRELUDE (2/3): external traits with ghost extensions.
// ===================================================================================

/// `AsRef<T>`: ghost accessor `aref()` names the reference an implementation returns.
#[verifier::external_trait_specification]
#[verifier::external_trait_extension(AsRefSpec via AsRefSpecImpl)]
pub trait ExAsRef<T: core::marker::PointeeSized>: core::marker::PointeeSized {
    type ExternalTraitSpecificationFor: AsRef<T>;
    spec fn aref(&self) -> &T;
    fn as_ref(&self) -> (r: &T)
        ensures r == self.aref();
}

impl<T> AsRefSpecImpl<[T]> for [T] {
    open spec fn aref(&self) -> &[T] { self }
}
impl<T, A: core::alloc::Allocator> AsRefSpecImpl<[T]> for Vec<T, A> {
    open spec fn aref(&self) -> &[T] { vec_ref(self) }
}
impl AsRefSpecImpl<[u8]> for Bytes {
    open spec fn aref(&self) -> &[u8] { bytes_ref(self) }
}
impl AsRefSpecImpl<[u8]> for BytesMut {
    open spec fn aref(&self) -> &[u8] { bm_ref(self) }
}
impl AsRefSpecImpl<[u8]> for str {
    open spec fn aref(&self) -> &[u8] { str_ref(self) }
}
impl AsRefSpecImpl<[u8]> for String {
    open spec fn aref(&self) -> &[u8] { string_ref(self) }
}
impl AsRefSpecImpl<str> for String {
    open spec fn aref(&self) -> &str { string_str(self) }
}
impl AsRefSpecImpl<str> for str {
    open spec fn aref(&self) -> &str { self }
}
impl<T, const N: usize> AsRefSpecImpl<[T]> for [T; N] {
    open spec fn aref(&self) -> &[T] { arr_ref(self) }
}
impl<T: ?Sized, U: ?Sized> AsRefSpecImpl<U> for &T where T: AsRef<U> {
    open spec fn aref(&self) -> &U { (**self).aref() }
}

/// `bytes::BufMut`: ghost view `bv()` = everything written so far.
#[verifier::external_trait_specification]
#[verifier::external_trait_extension(BufMutSpec via BufMutSpecImpl)]
pub trait ExBufMut {
    type ExternalTraitSpecificationFor: BufMut;
    spec fn bv(&self) -> Seq<u8>;
    fn put_slice(&mut self, src: &[u8])
        ensures final(self).bv() == old(self).bv() + src@;
}
impl BufMutSpecImpl for Vec<u8> {
    open spec fn bv(&self) -> Seq<u8> { self@ }
}
impl BufMutSpecImpl for BytesMut {
    open spec fn bv(&self) -> Seq<u8> { bmview(self) }
}
pub open spec fn buf_view(b: &dyn BufMut) -> Seq<u8> { b.bv() }

/// N2 shim: the unsizing coercion `&mut B -> &mut dyn BufMut` that rustc inserts at
/// `x.encode(&mut buf)` call sites and that Verus cannot express.  The body *is* that
/// coercion; the contract identifies the two views of the same buffer.
pub trait VpDyn {
    spec fn vpv(&self) -> Seq<u8>;
    fn vp_dyn(&mut self) -> (r: &mut dyn BufMut)
        ensures
            buf_view(r) == old(self).vpv(),
            final(self).vpv() == buf_view(final(r)),
    ;
}
impl VpDyn for BytesMut {
    open spec fn vpv(&self) -> Seq<u8> { bmview(self) }
    #[verifier::external_body]
    fn vp_dyn(&mut self) -> (r: &mut dyn BufMut) { self }
}
impl VpDyn for Vec<u8> {
    open spec fn vpv(&self) -> Seq<u8> { self@ }
    #[verifier::external_body]
    fn vp_dyn(&mut self) -> (r: &mut dyn BufMut) { self }
}

/// `alloy_rlp::Encodable`: ghost `rlp()` = the bytes `encode` appends.
#[verifier::external_trait_specification]
#[verifier::external_trait_extension(EncodableSpec via EncodableSpecImpl)]
pub trait ExEncodable {
    type ExternalTraitSpecificationFor: Encodable;
    spec fn rlp(&self) -> Seq<u8>;
    fn encode(&self, out: &mut dyn BufMut)
        ensures
            // [C04.encode.def] [C09.size.def] (label for the verified impl: Encodable for Enr<K>)
            buf_view(final(out)) == buf_view(old(out)) + self.rlp();
    fn length(&self) -> (r: usize)
        ensures r == self.rlp().len();
}
impl EncodableSpecImpl for u16 {
    open spec fn rlp(&self) -> Seq<u8> { rlp_uint(*self as nat) }
}
impl EncodableSpecImpl for u64 {
    open spec fn rlp(&self) -> Seq<u8> { rlp_uint(*self as nat) }
}
impl EncodableSpecImpl for [u8] {
    open spec fn rlp(&self) -> Seq<u8> { rlp_str(self@) }
}
impl EncodableSpecImpl for str {
    open spec fn rlp(&self) -> Seq<u8> { rlp_str(str_bytes(self)) }
}
impl EncodableSpecImpl for String {
    open spec fn rlp(&self) -> Seq<u8> { rlp_str(utf8(self@)) }
}
impl<T: ?Sized + Encodable> EncodableSpecImpl for &T {
    open spec fn rlp(&self) -> Seq<u8> { (**self).rlp() }
}
impl EncodableSpecImpl for Ipv4Addr {
    open spec fn rlp(&self) -> Seq<u8> { rlp_str(ip4_octets(*self)) }
}
impl EncodableSpecImpl for Ipv6Addr {
    open spec fn rlp(&self) -> Seq<u8> { rlp_str(ip6_octets(*self)) }
}
/// element-wise encodings of a sequence of encodable values
pub open spec fn seq_rlp<T: Encodable>(s: Seq<T>) -> Seq<Seq<u8>> { Seq::new(s.len(), |i: int| s[i].rlp()) }
impl<T: Encodable> EncodableSpecImpl for Vec<T> {
    open spec fn rlp(&self) -> Seq<u8> { rlp_list(seq_rlp(self@)) }
}

/// `alloy_rlp::Decodable`: ghost triple (accepts?, relation input/value, bytes consumed).
#[verifier::external_trait_specification]
#[verifier::external_trait_extension(DecodableSpec via DecodableSpecImpl)]
pub trait ExDecodable: Sized {
    type ExternalTraitSpecificationFor: Decodable;
    spec fn dec_ok(s: Seq<u8>) -> bool;
    spec fn dec_post(s: Seq<u8>, v: Self) -> bool;
    spec fn dec_len(s: Seq<u8>) -> nat;
    fn decode(buf: &mut &[u8]) -> (r: Result<Self, DecoderError>)
        ensures
            // The labels name the clauses for the one impl of this trait that is VERIFIED (impl Decodable for Enr<K>); for the
            // library impls (u16, u64, Bytes, ...) the same clauses are assumptions.
            // [C02.decode.iff] an input that is exactly one item (or holds no complete item at all)
            (parse_hdr(old(buf)@) is None || item_total(old(buf)@) == old(buf)@.len()) ==> (r is Ok <==> Self::dec_ok(old(buf)@)),
            // [C13.decode.local] the same outcome whatever follows the first item
            r is Ok <==> Self::dec_ok(old(buf)@),
            // [C04.decode.fields]
            r matches Ok(v) ==> Self::dec_post(old(buf)@, v),
            // [C13.decode.advance]
            r matches Ok(v) ==> final(buf)@ == after(old(buf)@, Self::dec_len(old(buf)@)),
    ;
}

impl DecodableSpecImpl for u16 {
    open spec fn dec_ok(s: Seq<u8>) -> bool { uint_ok(s, 2) }
    open spec fn dec_post(s: Seq<u8>, v: u16) -> bool { v as nat == be_val(item_payload(s, parse_hdr(s)->0)) }
    open spec fn dec_len(s: Seq<u8>) -> nat { item_total(s) }
}
impl DecodableSpecImpl for u64 {
    open spec fn dec_ok(s: Seq<u8>) -> bool { uint_ok(s, 8) }
    open spec fn dec_post(s: Seq<u8>, v: u64) -> bool { v as nat == be_val(item_payload(s, parse_hdr(s)->0)) }
    open spec fn dec_len(s: Seq<u8>) -> nat { item_total(s) }
}
impl DecodableSpecImpl for Bytes {
    open spec fn dec_ok(s: Seq<u8>) -> bool { parse_hdr(s) matches Some(h) && !h.list }
    open spec fn dec_post(s: Seq<u8>, v: Bytes) -> bool { bview(&v) == item_payload(s, parse_hdr(s)->0) }
    open spec fn dec_len(s: Seq<u8>) -> nat { item_total(s) }
}
impl DecodableSpecImpl for Ipv4Addr {
    open spec fn dec_ok(s: Seq<u8>) -> bool { fixed_str_ok(s, 4) }
    open spec fn dec_post(s: Seq<u8>, v: Ipv4Addr) -> bool { ip4_octets(v) == item_payload(s, parse_hdr(s)->0) }
    open spec fn dec_len(s: Seq<u8>) -> nat { item_total(s) }
}
impl DecodableSpecImpl for Ipv6Addr {
    open spec fn dec_ok(s: Seq<u8>) -> bool { fixed_str_ok(s, 16) }
    open spec fn dec_post(s: Seq<u8>, v: Ipv6Addr) -> bool { ip6_octets(v) == item_payload(s, parse_hdr(s)->0) }
    open spec fn dec_len(s: Seq<u8>) -> nat { item_total(s) }
}
/// `Vec<T>` decodes an RLP list of `T` items (element-wise structure left abstract)
impl<T: Decodable> DecodableSpecImpl for Vec<T> {
    uninterp spec fn dec_ok(s: Seq<u8>) -> bool;
    uninterp spec fn dec_post(s: Seq<u8>, v: Vec<T>) -> bool;
    uninterp spec fn dec_len(s: Seq<u8>) -> nat;
}

