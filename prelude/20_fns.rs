// ===================================================================================
// TRUSTED PRELUDE (3/3): assumed contracts of dependency functions.
// ===================================================================================

// ---------------- alloy-rlp ----------------
pub assume_specification [ Header::decode ] (buf: &mut &[u8]) -> (r: Result<Header, DecoderError>)
    ensures
        r matches Ok(h) ==> parse_hdr(old(buf)@) matches Some(hh) && h.list == hh.list && h.payload_length == hh.payload
            && final(buf)@ == after(old(buf)@, hh.hlen),
        r is Err ==> parse_hdr(old(buf)@) is None;

pub assume_specification<'a> [ Header::decode_bytes ] (buf: &mut &'a [u8], is_list: bool) -> (r: Result<&'a [u8], DecoderError>)
    ensures
        r matches Ok(b) ==> parse_hdr(old(buf)@) matches Some(hh) && hh.list == is_list && b@ == item_payload(old(buf)@, hh)
            && final(buf)@ == after(old(buf)@, hh.hlen + hh.payload),
        r is Err ==> (parse_hdr(old(buf)@) matches Some(hh) ==> hh.list != is_list);

pub assume_specification [ Header::encode ] (h: &Header, out: &mut dyn BufMut)
    ensures buf_view(final(out)) == buf_view(old(out)) + hdr(h.list, h.payload_length as nat);

pub assume_specification [ Header::length ] (h: &Header) -> (r: usize)
    ensures r == hdr(h.list, h.payload_length as nat).len();

pub assume_specification<T: Encodable> [ alloy_rlp::encode::<T> ] (v: T) -> (r: Vec<u8>)
    ensures r@ == v.rlp();

// ---------------- bytes ----------------
pub assume_specification [ BytesMut::new ] () -> (r: BytesMut)
    ensures bmview(&r) == Seq::<u8>::empty();
pub assume_specification [ BytesMut::with_capacity ] (n: usize) -> (r: BytesMut)
    ensures bmview(&r) == Seq::<u8>::empty();
pub assume_specification [ BytesMut::len ] (b: &BytesMut) -> (r: usize)
    ensures r == bmview(b).len();
pub assume_specification [ BytesMut::extend_from_slice ] (b: &mut BytesMut, s: &[u8])
    ensures bmview(final(b)) == bmview(old(b)) + s@;
pub assume_specification [ BytesMut::freeze ] (b: BytesMut) -> (r: Bytes)
    ensures bview(&r) == bmview(&b);
pub assume_specification [ <Bytes as core::ops::Deref>::deref ] (b: &Bytes) -> (r: &[u8])
    ensures r == bytes_ref(b);
pub assume_specification [ <BytesMut as core::ops::Deref>::deref ] (b: &BytesMut) -> (r: &[u8])
    ensures r == bm_ref(b);
pub assume_specification [ Bytes::len ] (b: &Bytes) -> (r: usize)
    ensures r == bview(b).len();
pub assume_specification [ <Bytes as Clone>::clone ] (b: &Bytes) -> (r: Bytes)
    ensures r == *b;
pub assume_specification [ <Bytes as From<Vec<u8>>>::from ] (v: Vec<u8>) -> (r: Bytes)
    ensures bview(&r) == v@;
pub assume_specification<'a> [ <&'a [u8] as bytes::Buf>::advance ] (b: &mut &'a [u8], n: usize)
    requires n <= old(b)@.len(),
    ensures final(b)@ == after(old(b)@, n as nat);

// ---------------- std ----------------
pub assume_specification<T: Clone> [ <[T]>::to_vec ] (s: &[T]) -> (r: Vec<T>)
    ensures r@ == s@;
pub assume_specification<T> [ std::mem::replace::<T> ] (dest: &mut T, src: T) -> (r: T)
    ensures r == *old(dest), *final(dest) == src;

// ---------------- N6 shims: `format!` ----------------
/// `format!("{a}{b}")` for Display of strings is concatenation
#[verifier::external_body]
pub fn vp_str_cat(a: &str, b: &str) -> (r: String)
    ensures r@ == a@ + b@,
{ format!("{a}{b}") }
/// error *messages* are not part of any property: an arbitrary string over-approximates them
#[verifier::external_body]
pub fn vp_opaque_string() -> (r: String)
{ String::new() }

// ---------------- std (continued) ----------------
pub assume_specification<T, E, F, O: FnOnce(E) -> Result<T, F>> [ Result::<T, E>::or_else ] (r: Result<T, E>, op: O) -> (out: Result<T, F>)
    requires r matches Err(e) ==> op.requires((e,)),
    ensures match r { Ok(t) => out == Ok::<T, F>(t), Err(e) => op.ensures((e,), out) };

pub assume_specification<T, F: FnOnce() -> Option<T>> [ Option::<T>::or_else ] (o: Option<T>, f: F) -> (out: Option<T>)
    requires o is None ==> f.requires(()),
    ensures match o { Some(t) => out == Some(t), None => f.ensures((), out) };
pub assume_specification<T> [ Option::<T>::or ] (o: Option<T>, b: Option<T>) -> (out: Option<T>)
    ensures out == (if o is Some { o } else { b });

pub assume_specification<T: Ord> [ core::cmp::min::<T> ] (a: T, b: T) -> (r: T)
    ensures r == (if vstd::std_specs::cmp::OrdSpec::cmp_spec(&a, &b) == core::cmp::Ordering::Greater { b } else { a });

#[verifier::external_type_specification]
#[verifier::external_body]
pub struct ExFromUtf8Error(std::string::FromUtf8Error);

pub open spec fn is_ascii_bytes(b: Seq<u8>) -> bool { forall|i: int| 0 <= i < b.len() ==> #[trigger] b[i] < 128 }
pub open spec fn is_ascii_chars(c: Seq<char>) -> bool { forall|i: int| 0 <= i < c.len() ==> (#[trigger] c[i] as u32) < 128 }

pub assume_specification [ String::from_utf8 ] (v: Vec<u8>) -> (r: Result<String, std::string::FromUtf8Error>)
    ensures
        is_ascii_bytes(v@) ==> r is Ok,
        r matches Ok(s) ==> utf8(s@) == v@;
pub assume_specification [ String::as_bytes ] (s: &String) -> (r: &[u8])
    ensures r@ == utf8(s@);
/// lossy UTF-8 decoding as a total function
pub uninterp spec fn lossy(b: Seq<u8>) -> Seq<char>;
/// N13 shim for `String::from_utf8_lossy(b).to_string()` (the `Cow<str>` in between cannot be named in a specification)
#[verifier::external_body]
pub fn vp_lossy_string(b: &[u8]) -> (r: String)
    ensures r@ == lossy(b@),
{ String::from_utf8_lossy(b).to_string() }

pub assume_specification [ Ipv4Addr::octets ] (a: &Ipv4Addr) -> (r: [u8; 4])
    ensures r@ == ip4_octets(*a);
pub assume_specification [ Ipv6Addr::octets ] (a: &Ipv6Addr) -> (r: [u8; 16])
    ensures r@ == ip6_octets(*a);
pub assume_specification [ <Ipv4Addr as From<[u8; 4]>>::from ] (v: [u8; 4]) -> (r: Ipv4Addr)
    ensures ip4_octets(r) == v@;
pub assume_specification [ <Ipv6Addr as From<[u8; 16]>>::from ] (v: [u8; 16]) -> (r: Ipv6Addr)
    ensures ip6_octets(r) == v@;
pub assume_specification [ SocketAddrV4::new ] (ip: Ipv4Addr, port: u16) -> (r: SocketAddrV4)
    ensures sa4_ip(r) == ip, sa4_port(r) == port;
pub assume_specification [ SocketAddrV6::new ] (ip: Ipv6Addr, port: u16, flow: u32, scope: u32) -> (r: SocketAddrV6)
    ensures sa6_ip(r) == ip, sa6_port(r) == port, sa6_flow(r) == flow, sa6_scope(r) == scope;
pub open spec fn sa_ip(s: SocketAddr) -> IpAddr {
    match s { SocketAddr::V4(a) => IpAddr::V4(sa4_ip(a)), SocketAddr::V6(a) => IpAddr::V6(sa6_ip(a)) }
}
pub open spec fn sa_port(s: SocketAddr) -> u16 {
    match s { SocketAddr::V4(a) => sa4_port(a), SocketAddr::V6(a) => sa6_port(a) }
}
pub assume_specification [ SocketAddr::ip ] (s: &SocketAddr) -> (r: IpAddr)
    ensures r == sa_ip(*s);
/// `::ffff:a.b.c.d` (RFC 4291 2.5.5.2): ten zero bytes, two 0xff bytes, then the IPv4 address
pub open spec fn ip6_is_v4_mapped(o: Seq<u8>) -> bool {
    o.len() == 16 && (forall|i: int| 0 <= i < 10 ==> o[i] == 0u8) && o[10] == 0xffu8 && o[11] == 0xffu8
}
/// `IpAddr::to_canonical` / `Ipv6Addr::to_canonical`: an IPv4-mapped IPv6 address becomes that IPv4 address, everything else is unchanged
pub assume_specification [ IpAddr::to_canonical ] (a: &IpAddr) -> (r: IpAddr)
    ensures match *a {
        IpAddr::V4(x) => r == IpAddr::V4(x),
        IpAddr::V6(x) => if ip6_is_v4_mapped(ip6_octets(x)) { r matches IpAddr::V4(y) && ip4_octets(y) == ip6_octets(x).subrange(12, 16) } else { r == IpAddr::V6(x) },
    };
pub assume_specification [ Ipv6Addr::to_canonical ] (x: &Ipv6Addr) -> (r: IpAddr)
    ensures if ip6_is_v4_mapped(ip6_octets(*x)) { r matches IpAddr::V4(y) && ip4_octets(y) == ip6_octets(*x).subrange(12, 16) } else { r == IpAddr::V6(*x) };
pub assume_specification [ Ipv6Addr::to_ipv4_mapped ] (x: &Ipv6Addr) -> (r: Option<Ipv4Addr>)
    ensures if ip6_is_v4_mapped(ip6_octets(*x)) { r matches Some(y) && ip4_octets(y) == ip6_octets(*x).subrange(12, 16) } else { r is None };
pub assume_specification [ SocketAddr::port ] (s: &SocketAddr) -> (r: u16)
    ensures r == sa_port(*s);

pub assume_specification [ <Bytes as AsRef<[u8]>>::as_ref ] (b: &Bytes) -> (r: &[u8])
    ensures r == bytes_ref(b);

pub assume_specification [ <BytesMut as PartialEq>::eq ] (a: &BytesMut, b: &BytesMut) -> (r: bool)
    ensures r == (bmview(a) == bmview(b));

// ---------------- iterators handed to remove_insert by the crate itself ----------------
#[verifier::reject_recursive_types(T)]
#[verifier::external_type_specification]
#[verifier::external_body]
pub struct ExEmpty<T>(std::iter::Empty<T>);
pub assume_specification<T> [ std::iter::empty::<T> ] () -> (r: std::iter::Empty<T>)
    ensures
        vstd::std_specs::iter::IteratorSpec::remaining(&r) == Seq::<T>::empty(),
        vstd::std_specs::iter::IteratorSpec::obeys_prophetic_iter_laws(&r),
        vstd::std_specs::iter::IteratorSpec::decrease(&r) is Some;

// ---------------- str operations used by FromStr ----------------
/// `s.starts_with(pat)`; given meaning for `&str` patterns by axiom_starts_with_str (trusted.rs)
pub uninterp spec fn pat_prefix<P>(s: &str, p: P) -> bool;
pub assume_specification<P: core::str::pattern::Pattern> [ str::starts_with::<P> ] (s: &str, pat: P) -> (r: bool)
    ensures r == pat_prefix(s, pat);
/// `s.get(range)`; given meaning for `RangeFrom<usize>` by axiom_str_get_from (trusted.rs)
pub uninterp spec fn str_get_rel<I: core::slice::SliceIndex<str>>(s: &str, i: I, r: Option<&I::Output>) -> bool;
pub assume_specification<I: core::slice::SliceIndex<str>> [ str::get::<I> ] (s: &str, i: I) -> (r: Option<&I::Output>)
    ensures str_get_rel(s, i, r);
pub assume_specification<T, A: core::alloc::Allocator> [ <Vec<T, A> as AsRef<[T]>>::as_ref ] (v: &Vec<T, A>) -> (r: &[T])
    ensures r@ == v@;
/// N13 shim for `s.len()` on a `&str`: the length in bytes
#[verifier::external_body]
pub fn vp_str_len(s: &str) -> (r: usize)
    ensures r == utf8(s@).len(),
{ s.len() }
pub assume_specification<T> [ <[T] as AsRef<[T]>>::as_ref ] (s: &[T]) -> (r: &[T])
    ensures r@ == s@;
/// N13 shim for `x.as_ref()` where `x: &mut [u8]` (`impl AsRef<U> for &mut T`: its lifetime structure cannot be restated
/// in an assume_specification with this Verus); the body is the original call
#[verifier::external_body]
pub fn vp_mut_slice_as_ref<'a>(b: &'a mut [u8]) -> (r: &'a [u8])
    ensures r@ == old(b)@, final(b)@ == old(b)@,
{ &*b }

pub assume_specification<T, E, U, F: FnOnce(T) -> Result<U, E>> [ Result::<T, E>::and_then ] (r: Result<T, E>, op: F) -> (out: Result<U, E>)
    requires r matches Ok(t) ==> op.requires((t,)),
    ensures match r { Ok(t) => op.ensures((t,), out), Err(e) => out == Err::<U, E>(e) };

// ---------------- hashing (N13 shim) ----------------
/// ghost trace of a hasher: the abstract tokens fed into it so far
pub uninterp spec fn hasher_fed<H>(h: &H) -> Seq<Seq<u8>>;
/// the token `x.hash(state)` feeds: a function of `x` (for u64 / [u8; N] / Vec<u8>: of the value / contents, see trusted.rs)
pub uninterp spec fn hash_tok<T>(x: &T) -> Seq<u8>;
/// N13 shim for `x.hash(state)`; the body is the original call
#[verifier::external_body]
pub fn vp_hash<T: core::hash::Hash, H: core::hash::Hasher>(x: &T, state: &mut H)
    ensures hasher_fed(final(state)) == hasher_fed(old(state)).push(hash_tok(x)),
{ x.hash(state) }

// ---------------- Display (N6 shim) ----------------
/// ghost: everything written to the formatter so far
pub uninterp spec fn fmt_out(f: &core::fmt::Formatter<'_>) -> Seq<char>;
/// N6 shim for `write!(f, "{}", s)` with a string argument: appends exactly the string (or fails without a guarantee)
#[verifier::external_body]
pub fn vp_write_display(f: &mut core::fmt::Formatter<'_>, s: &String) -> (r: core::fmt::Result)
    ensures r is Ok ==> fmt_out(final(f)) == fmt_out(old(f)) + s@,
{ write!(f, "{}", s) }
/// `&String` / `&str` / `&&str` as a str (argument adapter of the write! shim)
pub trait VpAsStr {
    spec fn vp_chars(&self) -> Seq<char>;
    fn vp_as_str(&self) -> (r: &str)
        ensures r@ == self.vp_chars();
}
impl VpAsStr for String {
    open spec fn vp_chars(&self) -> Seq<char> { self@ }
    fn vp_as_str(&self) -> (r: &str) { self.as_str() }
}
impl VpAsStr for &str {
    open spec fn vp_chars(&self) -> Seq<char> { (*self)@ }
    fn vp_as_str(&self) -> (r: &str) { *self }
}
/// `{:x}` (w = 0) / `{:02x}` (w = 2) of a byte: lower-case hex, two digits when padded or when the value needs them
pub open spec fn hex_u8(v: u8, w: nat) -> Seq<char> {
    if w >= 2 || v >= 16 { seq![crate::standin::hex::hex_digit((v / 16) as int), crate::standin::hex::hex_digit((v % 16) as int)] }
    else { seq![crate::standin::hex::hex_digit(v as int)] }
}
/// N6 shim for a `{:x}` / `{:02x}` hole with a `u8` argument
#[verifier::external_body]
pub fn vp_hex_u8(v: u8, w: usize) -> (r: String)
    requires w <= 2,
    ensures r@ == hex_u8(v, w as nat), is_ascii_chars(r@),
{ if w >= 2 { format!("{v:02x}") } else { format!("{v:x}") } }
pub open spec fn concat_strs(parts: Seq<&str>) -> Seq<char>
    decreases parts.len()
{
    if parts.len() == 0 { Seq::empty() } else { concat_strs(parts.drop_last()) + parts.last()@ }
}
/// N6 shim for `write!(f, "lit{}lit{}", a, b)` with string arguments: appends the concatenation of the parts
#[verifier::external_body]
pub fn vp_write_parts(f: &mut core::fmt::Formatter<'_>, parts: &[&str]) -> (r: core::fmt::Result)
    ensures r is Ok ==> fmt_out(final(f)) == fmt_out(old(f)) + concat_strs(parts@),
{
    for p in parts { f.write_str(p)?; }
    Ok(())
}
/// str slicing `&s[a..b]` / `&s[a..]` (panics unless both ends are char boundaries); meaning for Range / RangeFrom on
/// ASCII strings is given by axiom_string_index_range / axiom_string_index_from (trusted.rs)
pub uninterp spec fn string_index_rel<I: core::slice::SliceIndex<str>>(s: &String, i: I, o: &I::Output) -> bool;
pub assume_specification<I: core::slice::SliceIndex<str>> [ <String as core::ops::Index<I>>::index ] (s: &String, i: I) -> (o: &I::Output)
    // the precondition is vstd's `IndexSpec::index_req` (given meaning for ASCII strings by T14 in trusted.rs)
    ensures string_index_rel(s, i, o);
/// the same on a `&str` (`&s[a..]`, `&s[..b]`): meaning for RangeFrom / RangeTo by T14' (axiom_str_index_*, trusted.rs)
pub uninterp spec fn str_index_rel<I: core::slice::SliceIndex<str>>(s: &str, i: I, o: &I::Output) -> bool;
pub assume_specification<I: core::slice::SliceIndex<str>> [ <str as core::ops::Index<I>>::index ] (s: &str, i: I) -> (o: &I::Output)
    // the precondition is vstd's `IndexSpec::index_req` (given meaning by T14')
    ensures str_index_rel(s, i, o);
pub assume_specification [ String::len ] (s: &String) -> (r: usize)
    ensures is_ascii_chars(s@) ==> r == s@.len();

// ---------------- functions the crate does not call today, specified so that plausible rewrites of it stay verifiable ----------------
/// `a.eq_ignore_ascii_case(b)` on `str` (std: the byte strings are compared with 'A'..='Z' folded onto 'a'..='z'; bytes of
/// multi-byte characters are >= 0x80 and never folded, so this is the same comparison character by character)
pub open spec fn ascii_fold(c: char) -> int { if 65 <= (c as u32) && (c as u32) <= 90 { (c as u32) + 32 } else { c as u32 as int } }
pub assume_specification [ str::eq_ignore_ascii_case ] (a: &str, b: &str) -> (r: bool)
    ensures r == (a@.len() == b@.len() && forall|i: int| 0 <= i < a@.len() ==> ascii_fold(#[trigger] a@[i]) == ascii_fold(b@[i]));
/// `alloy_rlp::length_of_length(n)`: the length of the header of an item with an n-byte payload (same for strings and lists)
pub assume_specification [ alloy_rlp::length_of_length ] (payload_length: usize) -> (r: usize)
    ensures r == hdr(true, payload_length as nat).len(), r == hdr(false, payload_length as nat).len();
/// `p` repeated `k` times
pub open spec fn seq_rep<T>(p: Seq<T>, k: nat) -> Seq<T>
    decreases k
{ if k == 0 { Seq::<T>::empty() } else { p + seq_rep(p, (k - 1) as nat) } }
/// `s.trim_start_matches(pat)`; given meaning for `&str` patterns by axiom_trim_start_str (trusted.rs)
pub uninterp spec fn trim_start_rel<P>(s: &str, p: P, r: &str) -> bool;
pub assume_specification<'a, P: core::str::pattern::Pattern> [ str::trim_start_matches::<P> ] (s: &'a str, pat: P) -> (r: &'a str)
    ensures trim_start_rel(s, pat, r);
/// Unicode `White_Space` (what `char::is_whitespace` tests); T18 in trusted.rs fixes it on ASCII
pub uninterp spec fn is_ws(c: char) -> bool;
/// `r` is `s` without its leading (`front`) / trailing (`back`) run of white space
pub open spec fn trimmed_of(s: Seq<char>, r: Seq<char>, front: bool, back: bool) -> bool {
    exists|a: int, b: int| 0 <= a <= b <= s.len() && r == s.subrange(a, b)
        && (forall|i: int| 0 <= i < a ==> is_ws(#[trigger] s[i])) && (forall|i: int| b <= i < s.len() ==> is_ws(#[trigger] s[i]))
        && (if front { a == b || !is_ws(s[a]) } else { a == 0 })
        && (if back { a == b || !is_ws(s[b - 1]) } else { b == s.len() })
}
pub assume_specification<'a> [ str::trim ] (s: &'a str) -> (r: &'a str)
    ensures trimmed_of(s@, r@, true, true);
pub assume_specification<'a> [ str::trim_start ] (s: &'a str) -> (r: &'a str)
    ensures trimmed_of(s@, r@, true, false);
pub assume_specification<'a> [ str::trim_end ] (s: &'a str) -> (r: &'a str)
    ensures trimmed_of(s@, r@, false, true);
/// `s.strip_prefix(pat)`; given meaning for `&str` patterns by axiom_strip_prefix_str (trusted.rs)
pub uninterp spec fn strip_prefix_rel<P>(s: &str, p: P, r: Option<&str>) -> bool;
pub assume_specification<'a, P: core::str::pattern::Pattern> [ str::strip_prefix::<P> ] (s: &'a str, pat: P) -> (r: Option<&'a str>)
    ensures strip_prefix_rel(s, pat, r);

pub assume_specification<T, U, F: FnOnce(T) -> U> [ Option::<T>::map_or ] (o: Option<T>, default: U, f: F) -> (r: U)
    requires o matches Some(v) ==> f.requires((v,)),
    ensures match o { Some(v) => f.ensures((v,), r), None => r == default };
pub assume_specification<'a> [ core::fmt::Formatter::<'a>::write_str ] (f: &mut core::fmt::Formatter<'a>, data: &str) -> (r: core::fmt::Result)
    ensures r is Ok ==> fmt_out(final(f)) == fmt_out(old(f)) + data@;
#[verifier::external_type_specification]
#[verifier::external_body]
pub struct ExTryFromSliceError(core::array::TryFromSliceError);
pub assume_specification<'a, T: Copy, const N: usize> [ <[T; N] as TryFrom<&'a [T]>>::try_from ] (s: &[T]) -> (r: Result<[T; N], core::array::TryFromSliceError>)
    ensures
        r is Ok <==> s@.len() == N,
        r matches Ok(a) ==> a@ == s@;
