// ===================================================================================
// TRUSTED PRELUDE (3/3): assumed contracts of dependency functions.
// ===================================================================================

// ---------------- alloy-rlp ----------------
pub assume_specification [ Header::decode ] (buf: &mut &[u8]) -> (r: Result<Header, DecoderError>)
    ensures
        r matches Ok(h) ==> parse_hdr(old(buf)@) matches Some(hh) && h.list == hh.list && h.payload_length == hh.payload
            && final(buf)@ == after(old(buf)@, hh.hlen),
        r is Err ==> parse_hdr(old(buf)@) is None;

pub assume_specification<'a> [ Header::decode_bytes ] (buf: &mut &'a [u8], is_list: bool) -> (r: Result<&'a [u8], DecoderError>)
    ensures
        r matches Ok(b) ==> parse_hdr(old(buf)@) matches Some(hh) && hh.list == is_list && b@ == item_payload(old(buf)@, hh)
            && final(buf)@ == after(old(buf)@, hh.hlen + hh.payload),
        r is Err ==> (parse_hdr(old(buf)@) matches Some(hh) ==> hh.list != is_list);

pub assume_specification [ Header::encode ] (h: &Header, out: &mut dyn BufMut)
    ensures buf_view(final(out)) == buf_view(old(out)) + hdr(h.list, h.payload_length as nat);

pub assume_specification [ Header::length ] (h: &Header) -> (r: usize)
    ensures r == hdr(h.list, h.payload_length as nat).len();

pub assume_specification<T: Encodable> [ alloy_rlp::encode::<T> ] (v: T) -> (r: Vec<u8>)
    ensures r@ == v.rlp();

// ---------------- bytes ----------------
pub assume_specification [ BytesMut::new ] () -> (r: BytesMut)
    ensures bmview(&r) == Seq::<u8>::empty();
pub assume_specification [ BytesMut::with_capacity ] (n: usize) -> (r: BytesMut)
    ensures bmview(&r) == Seq::<u8>::empty();
pub assume_specification [ BytesMut::len ] (b: &BytesMut) -> (r: usize)
    ensures r == bmview(b).len();
pub assume_specification [ BytesMut::extend_from_slice ] (b: &mut BytesMut, s: &[u8])
    ensures bmview(final(b)) == bmview(old(b)) + s@;
pub assume_specification [ BytesMut::freeze ] (b: BytesMut) -> (r: Bytes)
    ensures bview(&r) == bmview(&b);
pub assume_specification [ <Bytes as core::ops::Deref>::deref ] (b: &Bytes) -> (r: &[u8])
    ensures r == bytes_ref(b);
pub assume_specification [ <BytesMut as core::ops::Deref>::deref ] (b: &BytesMut) -> (r: &[u8])
    ensures r == bm_ref(b);
pub assume_specification [ Bytes::len ] (b: &Bytes) -> (r: usize)
    ensures r == bview(b).len();
pub assume_specification [ <Bytes as Clone>::clone ] (b: &Bytes) -> (r: Bytes)
    ensures r == *b;
pub assume_specification [ <Bytes as From<Vec<u8>>>::from ] (v: Vec<u8>) -> (r: Bytes)
    ensures bview(&r) == v@;
pub assume_specification<'a> [ <&'a [u8] as bytes::Buf>::advance ] (b: &mut &'a [u8], n: usize)
    requires n <= old(b)@.len(),
    ensures final(b)@ == after(old(b)@, n as nat);

// ---------------- std ----------------
pub assume_specification<T: Clone> [ <[T]>::to_vec ] (s: &[T]) -> (r: Vec<T>)
    ensures r@ == s@;
pub assume_specification<T> [ std::mem::replace::<T> ] (dest: &mut T, src: T) -> (r: T)
    ensures r == *old(dest), *final(dest) == src;
