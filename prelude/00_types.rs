// ===================================================================================
// TRUSTED PRELUDE (1/3): external types and their ghost views.
// Everything in prelude/ is an *assumption* about a dependency (bytes, alloy-rlp, std);
// nothing here is proved.  The driver lists every item of this directory in the
// evidence (coverage.trusted_base).
// ===================================================================================

#[verifier::external_type_specification]
#[verifier::external_body]
pub struct ExBytes(Bytes);

#[verifier::external_type_specification]
#[verifier::external_body]
pub struct ExBytesMut(BytesMut);

#[verifier::external_type_specification]
pub struct ExHeader(Header);

#[verifier::external_type_specification]
pub struct ExDecoderError(DecoderError);

#[verifier::external_type_specification]
#[verifier::external_body]
pub struct ExIpv4Addr(Ipv4Addr);

#[verifier::external_type_specification]
#[verifier::external_body]
pub struct ExIpv6Addr(Ipv6Addr);

#[verifier::external_type_specification]
pub struct ExIpAddr(IpAddr);

#[verifier::external_type_specification]
#[verifier::external_body]
pub struct ExSocketAddrV4(SocketAddrV4);

#[verifier::external_type_specification]
#[verifier::external_body]
pub struct ExSocketAddrV6(SocketAddrV6);

#[verifier::external_type_specification]
pub struct ExSocketAddr(SocketAddr);

/// the slice a `Bytes` / `BytesMut` dereferences to
pub uninterp spec fn bytes_ref(b: &Bytes) -> &[u8];
pub uninterp spec fn bm_ref(b: &BytesMut) -> &[u8];
pub uninterp spec fn vec_ref<T, A: core::alloc::Allocator>(b: &Vec<T, A>) -> &[T];
pub uninterp spec fn arr_ref<T, const N: usize>(a: &[T; N]) -> &[T];
pub uninterp spec fn str_ref(b: &str) -> &[u8];
pub uninterp spec fn string_ref(b: &String) -> &[u8];
/// `<String as AsRef<str>>::as_ref` / `String::as_str`: the same characters
pub uninterp spec fn string_str(b: &String) -> &str;
/// UTF-8 encoding of a character sequence (total; identity on ASCII, injective, a monoid morphism: see trusted.rs)
pub open spec fn utf8(c: Seq<char>) -> Seq<u8> { vstd::utf8::encode_utf8(c) }
/// contents of a `Bytes`
pub open spec fn bview(b: &Bytes) -> Seq<u8> { bytes_ref(b)@ }
/// contents of a `BytesMut`
pub open spec fn bmview(b: &BytesMut) -> Seq<u8> { bm_ref(b)@ }
/// the four octets of an IPv4 address
pub uninterp spec fn ip4_octets(a: Ipv4Addr) -> Seq<u8>;
/// the sixteen octets of an IPv6 address
pub uninterp spec fn ip6_octets(a: Ipv6Addr) -> Seq<u8>;
/// UTF-8 bytes of a str
pub open spec fn str_bytes(s: &str) -> Seq<u8> { utf8(s@) }

pub uninterp spec fn sa4_ip(a: SocketAddrV4) -> Ipv4Addr;
pub uninterp spec fn sa4_port(a: SocketAddrV4) -> u16;
pub uninterp spec fn sa6_ip(a: SocketAddrV6) -> Ipv6Addr;
pub uninterp spec fn sa6_port(a: SocketAddrV6) -> u16;
pub uninterp spec fn sa6_flow(a: SocketAddrV6) -> u32;
pub uninterp spec fn sa6_scope(a: SocketAddrV6) -> u32;

/// a `Vec<T>` exists for every sequence (see trusted.rs: axiom_vec_of)
pub uninterp spec fn vec_of<T>(s: Seq<T>) -> Vec<T>;
