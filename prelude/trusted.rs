// ===================================================================================
// TRUSTED BROADCAST AXIOMS: std semantics that vstd leaves uninterpreted.
// Each one is an ASSUMPTION and is listed individually in the evidence.
// ===================================================================================
use vstd::prelude::*;
use vstd::std_specs::cmp::*;
use vstd::std_specs::btree::*;
use super::sp::*;
use bytes::{Bytes, BytesMut};

/// T1: `==` on byte slices is equality of contents
#[verifier::external_body]
pub broadcast proof fn axiom_slice_eq(a: &[u8], b: &[u8])
    ensures #[trigger] PartialEqSpec::eq_spec(a, b) == (a@ == b@),
{}
#[verifier::external_body]
pub broadcast proof fn axiom_slice_obeys()
    ensures #[trigger] <[u8] as PartialEqSpec<[u8]>>::obeys_eq_spec(),
{}
/// T1': `==` on byte arrays, byte vectors, and String vs str is equality of contents
#[verifier::external_body]
pub broadcast proof fn axiom_arr_eq<const N: usize>(a: &[u8; N], b: &[u8; N])
    ensures #[trigger] PartialEqSpec::eq_spec(a, b) == (a@ == b@),
{}
#[verifier::external_body]
pub broadcast proof fn axiom_arr_obeys<const N: usize>()
    ensures #[trigger] <[u8; N] as PartialEqSpec<[u8; N]>>::obeys_eq_spec(),
{}
#[verifier::external_body]
pub broadcast proof fn axiom_vec_eq(a: &Vec<u8>, b: &Vec<u8>)
    ensures #[trigger] PartialEqSpec::eq_spec(a, b) == (a@ == b@),
{}
#[verifier::external_body]
pub broadcast proof fn axiom_vec_obeys()
    ensures #[trigger] <Vec<u8> as PartialEqSpec<Vec<u8>>>::obeys_eq_spec(),
{}
/// T5
#[verifier::external_body]
pub broadcast proof fn axiom_string_str_eq(a: &String, b: &str)
    ensures #[trigger] PartialEqSpec::<str>::eq_spec(a, b) == (a@ == b@),
{}
#[verifier::external_body]
pub broadcast proof fn axiom_string_str_obeys()
    ensures #[trigger] <String as PartialEqSpec<str>>::obeys_eq_spec(),
{}
#[verifier::external_body]
pub broadcast proof fn axiom_string_refstr_eq(a: &String, b: &&str)
    ensures #[trigger] PartialEqSpec::<&str>::eq_spec(a, b) == (a@ == (*b)@),
{}
#[verifier::external_body]
pub broadcast proof fn axiom_string_refstr_obeys()
    ensures #[trigger] <String as PartialEqSpec<&str>>::obeys_eq_spec(),
{}
/// T6: lossy UTF-8 decoding reads "v4" exactly for the two bytes 0x76 0x34
#[verifier::external_body]
pub broadcast proof fn axiom_lossy_v4(b: Seq<u8>)
    ensures
        (#[trigger] lossy(b) == seq!['v', '4']) <==> b == seq![0x76u8, 0x34u8],
        (utf8(lossy(b)) == seq![0x76u8, 0x34u8]) <==> b == seq![0x76u8, 0x34u8],
{}
/// T1'': a byte slice is determined by its contents
#[verifier::external_body]
pub broadcast proof fn axiom_slice_ext(a: &[u8], b: &[u8])
    ensures #[trigger] a@ == #[trigger] b@ ==> a == b,
{}
/// `Bytes: From<Vec<u8>>` (reached through `.into()`) keeps the bytes
#[verifier::external_body]
pub broadcast proof fn axiom_bytes_from_vec(v: Vec<u8>)
    ensures bview(&#[trigger] <Bytes as vstd::std_specs::convert::FromSpec<Vec<u8>>>::from_spec(v)) == v@,
{}
#[verifier::external_body]
pub broadcast proof fn axiom_bytes_from_vec_obeys()
    ensures #[trigger] <Bytes as vstd::std_specs::convert::FromSpec<Vec<u8>>>::obeys_from_spec(),
{}
/// `Bytes: From<BytesMut>` (the conversion `BytesMut::freeze` performs) keeps the bytes
#[verifier::external_body]
pub broadcast proof fn axiom_bytes_from_bytesmut(b: BytesMut)
    ensures bview(&#[trigger] <Bytes as vstd::std_specs::convert::FromSpec<BytesMut>>::from_spec(b)) == bmview(&b),
{}
#[verifier::external_body]
pub broadcast proof fn axiom_bytes_from_bytesmut_obeys()
    ensures #[trigger] <Bytes as vstd::std_specs::convert::FromSpec<BytesMut>>::obeys_from_spec(),
{}
/// T7: no buffer is longer than the user address space of the platform (x86-64: 2^47 bytes)
#[verifier::external_body]
pub broadcast proof fn axiom_vec_len_bound(v: &Vec<u8>)
    ensures #[trigger] v@.len() <= 0x8000_0000_0000,
{}
#[verifier::external_body]
pub broadcast proof fn axiom_bm_len_bound(v: &BytesMut)
    ensures #[trigger] bmview(v).len() <= 0x8000_0000_0000,
{}
/// T12: `str::starts_with(&str)` compares UTF-8 bytes; `str::get(n..)` cuts at byte n when that is a char boundary
/// (it is one whenever the byte before it is ASCII)
#[verifier::external_body]
pub broadcast proof fn axiom_starts_with_str(s: &str, p: &str)
    ensures #[trigger] pat_prefix::<&str>(s, p) == (utf8(s@).len() >= utf8(p@).len() && utf8(s@).subrange(0, utf8(p@).len() as int) == utf8(p@)),
{}
#[verifier::external_body]
pub broadcast proof fn axiom_str_get_from(s: &str, i: core::ops::RangeFrom<usize>, r: Option<&str>)
    ensures #[trigger] str_get_rel::<core::ops::RangeFrom<usize>>(s, i, r) ==>
        (r matches Some(t) ==> i.start <= utf8(s@).len() && utf8(t@) == utf8(s@).subrange(i.start as int, utf8(s@).len() as int))
        && (r is None ==> !(1 <= i.start <= utf8(s@).len() && utf8(s@)[i.start - 1] < 128)),
{}
/// `trim_start_matches` with a `&str` pattern removes EVERY leading repetition of the pattern (not just one)
#[verifier::external_body]
pub broadcast proof fn axiom_trim_start_str(s: &str, p: &str, r: &str)
    ensures #[trigger] trim_start_rel::<&str>(s, p, r) ==> exists|k: nat| utf8(s@) == seq_rep(utf8(p@), k) + utf8(r@)
        && (utf8(p@).len() > 0 ==> !(utf8(r@).len() >= utf8(p@).len() && utf8(r@).subrange(0, utf8(p@).len() as int) == utf8(p@))),
{}
/// `strip_prefix` with a `&str` pattern removes exactly one leading occurrence, or reports that there is none
#[verifier::external_body]
pub broadcast proof fn axiom_strip_prefix_str(s: &str, p: &str, r: Option<&str>)
    ensures #[trigger] strip_prefix_rel::<&str>(s, p, r) ==> match r {
        Some(t) => utf8(s@) == utf8(p@) + utf8(t@),
        None => !(utf8(s@).len() >= utf8(p@).len() && utf8(s@).subrange(0, utf8(p@).len() as int) == utf8(p@)),
    },
{}
/// `String: AsRef<str>` yields the string's own characters
#[verifier::external_body]
pub broadcast proof fn axiom_string_str(s: &String)
    ensures (#[trigger] string_str(s))@ == s@,
{}
/// T18: white space among the ASCII characters is exactly TAB, LF, VT, FF, CR and SPACE
#[verifier::external_body]
pub broadcast proof fn axiom_is_ws_ascii(c: char)
    ensures (c as u32) < 128 ==> (#[trigger] is_ws(c) <==> ((c as u32) == 32 || (9 <= (c as u32) <= 13))),
{}
/// T15: alloy-rlp's `Vec<T>::decode` for `T = Bytes`: the input must start with a LIST whose payload is exactly a sequence of
/// string items; the vector holds their payloads in order; the buffer is advanced past the list.
/// (`Header::decode_bytes(buf, true)`, then `Bytes::decode` until the payload is used up.)
#[verifier::external_body]
pub broadcast proof fn axiom_vec_bytes_dec_ok(s: Seq<u8>)
    ensures #[trigger] <Vec<Bytes> as DecodableSpec>::dec_ok(s) == (str_list(s) is Some),
{}
#[verifier::external_body]
pub broadcast proof fn axiom_vec_bytes_dec_post(s: Seq<u8>, v: Vec<Bytes>)
    ensures #[trigger] <Vec<Bytes> as DecodableSpec>::dec_post(s, v) ==> (str_list(s) matches Some(items)
        && v@.len() == items.len() && forall|i: int| 0 <= i < items.len() ==> bview(&#[trigger] v@[i]) == items[i]),
{}
/// T16: lossy UTF-8 decoding of valid UTF-8 is the identity
#[verifier::external_body]
pub broadcast proof fn axiom_lossy_utf8(c: Seq<char>)
    ensures #[trigger] lossy(utf8(c)) == c,
{}
/// T13: `Hash for Vec<u8>` feeds a function of the contents
#[verifier::external_body]
pub proof fn axiom_hash_tok_vec(a: &Vec<u8>, b: &Vec<u8>)
    ensures a@ == b@ ==> hash_tok(a) == hash_tok(b),
{}
/// T14: slicing an ASCII String by a byte range that lies inside it does not panic and yields those characters
/// (one axiom per trigger: the precondition must be available before the result exists)
#[verifier::external_body]
pub broadcast proof fn axiom_string_index_range_req(s: &String, i: core::ops::Range<usize>)
    ensures (is_ascii_chars(s@) && i.start <= i.end <= s@.len()) ==> #[trigger] vstd::std_specs::core::IndexSpec::index_req(s, &i),
{}
#[verifier::external_body]
pub broadcast proof fn axiom_string_index_range(s: &String, i: core::ops::Range<usize>, o: &str)
    ensures (is_ascii_chars(s@) && #[trigger] string_index_rel::<core::ops::Range<usize>>(s, i, o)) ==> o@ == s@.subrange(i.start as int, i.end as int),
{}
#[verifier::external_body]
pub broadcast proof fn axiom_string_index_from_req(s: &String, i: core::ops::RangeFrom<usize>)
    ensures (is_ascii_chars(s@) && i.start <= s@.len()) ==> #[trigger] vstd::std_specs::core::IndexSpec::index_req(s, &i),
{}
#[verifier::external_body]
pub broadcast proof fn axiom_string_index_from(s: &String, i: core::ops::RangeFrom<usize>, o: &str)
    ensures (is_ascii_chars(s@) && #[trigger] string_index_rel::<core::ops::RangeFrom<usize>>(s, i, o)) ==> o@ == s@.subrange(i.start as int, s@.len() as int),
{}
/// T14': slicing a `&str` at byte n does not panic when n is 0, or n is inside the string and the byte before it is ASCII (then n is
/// a char boundary; a sufficient condition, the same one T12 uses for `get`); the result holds the bytes from / up to n
#[verifier::external_body]
pub broadcast proof fn axiom_str_index_from_req(s: &str, i: core::ops::RangeFrom<usize>)
    ensures (i.start == 0 || (i.start <= utf8(s@).len() && utf8(s@)[i.start - 1] < 128)) ==> #[trigger] vstd::std_specs::core::IndexSpec::index_req(s, &i),
{}
#[verifier::external_body]
pub broadcast proof fn axiom_str_index_from(s: &str, i: core::ops::RangeFrom<usize>, o: &str)
    ensures #[trigger] str_index_rel::<core::ops::RangeFrom<usize>>(s, i, o) ==> i.start <= utf8(s@).len() && utf8(o@) == utf8(s@).subrange(i.start as int, utf8(s@).len() as int),
{}
#[verifier::external_body]
pub broadcast proof fn axiom_str_index_to_req(s: &str, i: core::ops::RangeTo<usize>)
    ensures (i.end == 0 || (i.end <= utf8(s@).len() && utf8(s@)[i.end - 1] < 128)) ==> #[trigger] vstd::std_specs::core::IndexSpec::index_req(s, &i),
{}
#[verifier::external_body]
pub broadcast proof fn axiom_str_index_to(s: &str, i: core::ops::RangeTo<usize>, o: &str)
    ensures #[trigger] str_index_rel::<core::ops::RangeTo<usize>>(s, i, o) ==> i.end <= utf8(s@).len() && utf8(o@) == utf8(s@).subrange(0, i.end as int),
{}
/// T2: ordering of byte slices is lexicographic
#[verifier::external_body]
pub broadcast proof fn axiom_slice_ord(a: &[u8], b: &[u8])
    ensures #[trigger] PartialOrdSpec::partial_cmp_spec(&a, &b) ==
        Some(if lex_lt(a@, b@) { core::cmp::Ordering::Less } else if a@ == b@ { core::cmp::Ordering::Equal } else { core::cmp::Ordering::Greater }),
{}
#[verifier::external_body]
pub broadcast proof fn axiom_slice_pord_obeys()
    ensures #[trigger] <&[u8] as PartialOrdSpec<&[u8]>>::obeys_partial_cmp_spec(),
{}
/// T3: Vec<u8> keys are totally ordered and determined by their contents
#[verifier::external_body]
pub broadcast proof fn axiom_vecu8_ord()
    ensures #[trigger] key_obeys_cmp_spec::<Vec<u8>>(),
{}
#[verifier::external_body]
pub broadcast proof fn axiom_vecu8_ord2()
    ensures #[trigger] vstd::laws_cmp::obeys_cmp::<Vec<u8>>(),
{}
#[verifier::external_body]
pub broadcast proof fn axiom_vecu8_borrow()
    ensures #[trigger] borrowed_key_ordering_matches::<Vec<u8>, [u8]>(),
{}
#[verifier::external_body]
pub broadcast proof fn axiom_vecu8_ext(a: Vec<u8>, b: Vec<u8>)
    ensures #[trigger] a@ == #[trigger] b@ ==> a == b,
{}
/// T4: meaning of vstd's borrowed-key predicates for Key = Vec<u8>, Q = [u8]
#[verifier::external_body]
pub broadcast proof fn axiom_contains_borrowed(m: Map<Key, Bytes>, k: &[u8])
    ensures #[trigger] contains_borrowed_key::<Key, Bytes, [u8]>(m, k) == (exists|kk: Key| #[trigger] m.contains_key(kk) && kk@ == k@),
{}
#[verifier::external_body]
pub broadcast proof fn axiom_maps_borrowed(m: Map<Key, Bytes>, k: &[u8], v: Bytes)
    ensures #[trigger] maps_borrowed_key_to_value::<Key, Bytes, [u8]>(m, k, v) == (exists|kk: Key| #[trigger] m.contains_key(kk) && kk@ == k@ && m[kk] == v),
{}
#[verifier::external_body]
pub broadcast proof fn axiom_removed_borrowed(old: Map<Key, Bytes>, new: Map<Key, Bytes>, k: &[u8])
    ensures #[trigger] borrowed_key_removed::<Key, Bytes, [u8]>(old, new, k) ==
        (forall|kk: Key| (#[trigger] new.contains_key(kk) <==> (old.contains_key(kk) && kk@ != k@)) && (new.contains_key(kk) ==> new[kk] == old[kk])),
{}
/// T3': cmp_spec on Vec<u8> is the lexicographic order of the contents
#[verifier::external_body]
pub broadcast proof fn axiom_vecu8_cmp(a: Vec<u8>, b: Vec<u8>)
    ensures #[trigger] OrdSpec::cmp_spec(&a, &b) ==
        (if lex_lt(a@, b@) { core::cmp::Ordering::Less } else if a@ == b@ { core::cmp::Ordering::Equal } else { core::cmp::Ordering::Greater }),
{}
/// views of the AsRef targets
#[verifier::external_body]
pub broadcast proof fn axiom_vec_ref(v: &Vec<u8>)
    ensures #[trigger] vec_ref::<u8, std::alloc::Global>(v)@ == v@,
{}
#[verifier::external_body]
pub broadcast proof fn axiom_str_ref(s: &str)
    ensures #[trigger] str_ref(s)@ == utf8(s@),
{}
#[verifier::external_body]
pub broadcast proof fn axiom_array_ref<const N: usize>(a: &[u8; N])
    ensures #[trigger] arr_ref::<u8, N>(a)@ == a@,
{}
#[verifier::external_body]
pub broadcast proof fn axiom_vec_of(s: Seq<u8>)
    ensures (#[trigger] vec_of(s))@ == s,
{}
/// `From<&str> for Vec<u8>` and `From<&[u8]> for Vec<u8>` (reached through `.into()`) copy the bytes
#[verifier::external_body]
pub broadcast proof fn axiom_vec_from_str(s: &str)
    ensures
        #[trigger] <Vec<u8> as vstd::std_specs::convert::FromSpec<&str>>::from_spec(s)@ == utf8(s@),
{}
#[verifier::external_body]
pub broadcast proof fn axiom_vec_from_str_obeys()
    ensures
        #[trigger] <Vec<u8> as vstd::std_specs::convert::FromSpec<&str>>::obeys_from_spec(),
{}
#[verifier::external_body]
pub broadcast proof fn axiom_vec_from_slice_obeys()
    ensures
        #[trigger] <Vec<u8> as vstd::std_specs::convert::FromSpec<&[u8]>>::obeys_from_spec(),
{}
#[verifier::external_body]
pub broadcast proof fn axiom_vec_from_slice(s: &[u8])
    ensures
        #[trigger] <Vec<u8> as vstd::std_specs::convert::FromSpec<&[u8]>>::from_spec(s)@ == s@,
{}
/// `u8::from(bool)`: false -> 0, true -> 1
#[verifier::external_body]
pub broadcast proof fn axiom_u8_from_bool(b: bool)
    ensures #[trigger] <u8 as vstd::std_specs::convert::FromSpec<bool>>::from_spec(b) == (if b { 1u8 } else { 0u8 }),
{}
#[verifier::external_body]
pub broadcast proof fn axiom_u8_from_bool_obeys()
    ensures #[trigger] <u8 as vstd::std_specs::convert::FromSpec<bool>>::obeys_from_spec(),
{}
#[verifier::external_body]
pub broadcast proof fn axiom_ip4_len(a: std::net::Ipv4Addr)
    ensures #[trigger] ip4_octets(a).len() == 4,
{}
#[verifier::external_body]
pub broadcast proof fn axiom_ip6_len(a: std::net::Ipv6Addr)
    ensures #[trigger] ip6_octets(a).len() == 16,
{}

pub broadcast group group_trusted {
    axiom_slice_eq, axiom_slice_obeys, axiom_string_index_range_req, axiom_string_index_range, axiom_string_index_from_req, axiom_string_index_from, axiom_starts_with_str, axiom_str_get_from, axiom_trim_start_str, axiom_strip_prefix_str, axiom_vec_bytes_dec_ok, axiom_vec_bytes_dec_post, axiom_lossy_utf8, axiom_bytes_from_vec, axiom_bytes_from_vec_obeys, axiom_bytes_from_bytesmut, axiom_bytes_from_bytesmut_obeys, axiom_vec_len_bound, axiom_bm_len_bound, axiom_arr_eq, axiom_arr_obeys, axiom_vec_eq, axiom_vec_obeys, axiom_string_str_eq, axiom_string_str_obeys, axiom_string_refstr_eq, axiom_string_refstr_obeys, axiom_lossy_v4, axiom_slice_ord, axiom_slice_pord_obeys,
    axiom_vecu8_ord, axiom_vecu8_ord2, axiom_vecu8_borrow,
    axiom_contains_borrowed, axiom_maps_borrowed, axiom_removed_borrowed, axiom_vecu8_cmp,
    axiom_vec_ref, axiom_str_ref, axiom_vec_of, axiom_vec_from_str, axiom_vec_from_slice, axiom_vec_from_str_obeys, axiom_vec_from_slice_obeys, axiom_array_ref,
    axiom_ip4_len, axiom_ip6_len, axiom_is_ws_ascii, axiom_string_str, axiom_u8_from_bool, axiom_u8_from_bool_obeys, axiom_str_index_from_req, axiom_str_index_from, axiom_str_index_to_req, axiom_str_index_to,
}

/// extensionality axioms have two independent triggers (quadratic instantiation): they are kept out of the default group and
/// used only by the small modules that need them (lem: laws of cmap; node_id: AsRef)
pub broadcast group group_trusted_ext { axiom_slice_ext, axiom_vecu8_ext }
