// ===================================================================================
// STAND-INS (rule N7): opaque replacements for dependency crates whose types cannot be
// given `external_type_specification` (k256 / ed25519-dalek: deep crypto trait bounds)
// or whose API is only used through two or three calls (base64, hex, sha3, zeroize, rand).
// A stand-in has no body: proofs can use nothing but the contract stated here.
// Every contract in this file is an ASSUMPTION about the named dependency.
// ===================================================================================

pub mod k256 {
    use super::super::sp::*;
    use vstd::prelude::*;
    pub mod ecdsa {
        use super::super::super::sp::*;
        use vstd::prelude::*;
        #[verifier::external_body]
        pub struct SigningKey { _p: () }
        #[verifier::external_body]
        #[derive(Clone, Copy, Debug, PartialEq, Eq)]
        pub struct VerifyingKey { _p: () }
        #[verifier::external_body]
        pub struct Signature { _p: () }
        pub struct Error { pub _p: () }
        pub struct FieldBytes { pub v: Vec<u8> }
        /// k256: `Signature::try_from(bytes)` accepts exactly 64-byte r||s with r, s in [1, n-1]
        pub uninterp spec fn sig_parse(b: Seq<u8>) -> Option<Signature>;
        pub uninterp spec fn sig_bytes(s: &Signature) -> Seq<u8>;
        /// k256: ECDSA verification of `sig` over keccak256(msg) under `vk` (k256 rejects high-S signatures)
        pub uninterp spec fn lib_verify(vk: &VerifyingKey, msg: Seq<u8>, sig: &Signature) -> bool;
        pub uninterp spec fn sig_is_high_s(s: &Signature) -> bool;
        pub uninterp spec fn sig_low_twin(s: &Signature) -> Signature;
        impl Signature {
            /// stand-in for `<Signature as TryFrom<&[u8]>>::try_from`
            #[verifier::external_body]
            pub fn try_from(b: &[u8]) -> (r: Result<Self, Error>)
                ensures
                    r is Ok <==> sig_parse(b@) is Some,
                    r matches Ok(s) ==> sig_parse(b@) == Some(s),
            { unimplemented!() }
            #[verifier::external_body]
            pub fn from_slice(b: &[u8]) -> (r: Result<Self, Error>)
                ensures
                    r is Ok <==> sig_parse(b@) is Some,
                    r matches Ok(s) ==> sig_parse(b@) == Some(s),
            { unimplemented!() }
            #[verifier::external_body]
            pub fn to_vec(&self) -> (r: Vec<u8>)
                ensures r@ == sig_bytes(self), r@.len() == 64, sig_parse(r@) == Some(*self),
            { unimplemented!() }
            /// k256: Some(low-S twin) for a high-S signature, None otherwise
            #[verifier::external_body]
            pub fn normalize_s(&self) -> (r: Option<Self>)
                ensures
                    r is Some <==> sig_is_high_s(self),
                    r matches Some(t) ==> t == sig_low_twin(self),
            { unimplemented!() }
        }
        /// k256: 32-byte big-endian scalar in [1, n-1]
        pub uninterp spec fn secret_valid(b: Seq<u8>) -> bool;
        pub uninterp spec fn secret_of(k: &SigningKey) -> Seq<u8>;
        /// k256: SEC1 point decoding (33-byte compressed / 65-byte uncompressed)
        pub uninterp spec fn sec1_valid(b: Seq<u8>) -> bool;
        pub uninterp spec fn sec1_key(b: Seq<u8>) -> VerifyingKey;
        /// the SEC1 encodings every secp256k1 library understands: 33-byte compressed (tag 2/3), 65-byte uncompressed (tag 4).
        /// (k256 alone also takes the x-only form, tag 5; libsecp256k1 alone the hybrid form, tags 6/7.)
        pub open spec fn sec1_standard(b: Seq<u8>) -> bool {
            (b.len() == 33 && (b[0] == 2 || b[0] == 3)) || (b.len() == 65 && b[0] == 4)
        }
        /// what the crate accepts as a secp256k1 public key: a standard encoding of a valid point
        pub open spec fn sec1_ok(b: Seq<u8>) -> bool { sec1_standard(b) && sec1_valid(b) }
        /// the verifying key of a signing key
        pub uninterp spec fn sk_public(k: &SigningKey) -> VerifyingKey;
        /// 33-byte compressed SEC1 form / 64-byte x||y form of a verifying key
        pub open spec fn vk_compressed(k: &VerifyingKey) -> Seq<u8> { crate::standin::k256::cp_ref(&crate::standin::k256::cp_of(k))@ }
        /// affine coordinates of the key's curve point, 32-byte big-endian each
        pub uninterp spec fn pt_x(k: &VerifyingKey) -> Seq<u8>;
        pub uninterp spec fn pt_y(k: &VerifyingKey) -> Seq<u8>;
        pub open spec fn pt_y_odd(k: &VerifyingKey) -> bool { pt_y(k)[31] % 2 == 1 }
        pub open spec fn vk_xy(k: &VerifyingKey) -> Seq<u8> { pt_x(k) + pt_y(k) }
        /// v4 verification as EIP-778 states it: the signature field parses as a 64-byte r||s signature and verifies
        /// (low-S, over keccak256 of the message) under the key
        pub open spec fn vk_verify_v4(k: &VerifyingKey, msg: Seq<u8>, sig: Seq<u8>) -> bool {
            sig_parse(sig) matches Some(s) && lib_verify(k, msg, &s)
        }
        /// k256: the compressed encoding of a key is 33 bytes and decodes back to the same key
        #[verifier::external_body]
        pub proof fn axiom_vk_roundtrip(k: VerifyingKey)
            ensures vk_compressed(&k).len() == 33, sec1_valid(vk_compressed(&k)), sec1_key(vk_compressed(&k)) == k,
                vk_compressed(&k)[0] == 2 || vk_compressed(&k)[0] == 3,
        {}
        impl SigningKey {
            #[verifier::external_body]
            pub fn verifying_key(&self) -> (r: &VerifyingKey)
                ensures *r == sk_public(self),
            { unimplemented!() }
            /// stand-in for `RandomizedDigestSigner::try_sign_digest_with_rng`: may fail; a returned signature verifies
            /// under the signer's public key over the digested message (LIBRARY LAW, assumed)
            #[verifier::external_body]
            pub fn try_sign_digest_with_rng(&self, rng: &mut crate::standin::rand::rngs::OsRng, digest: crate::standin::sha3::Keccak256) -> (r: Result<Signature, Error>)
                ensures r matches Ok(s) ==> lib_verify(&sk_public(self), digest.data@, &s),
            { unimplemented!() }
            #[verifier::external_body]
            pub fn from_slice(b: &[u8]) -> (r: Result<Self, Error>)
                ensures
                    r is Ok <==> secret_valid(b@),
                    r matches Ok(k) ==> secret_of(&k) == b@,
            { unimplemented!() }
            #[verifier::external_body]
            pub fn to_bytes(&self) -> (r: FieldBytes)
                ensures r.v@ == secret_of(self),
            { unimplemented!() }
        }
        impl FieldBytes {
            #[verifier::external_body]
            pub fn to_vec(&self) -> (r: Vec<u8>)
                ensures r@ == self.v@,
            { unimplemented!() }
        }
        impl VerifyingKey {
            /// stand-in for `DigestVerifier::verify_digest`
            #[verifier::external_body]
            pub fn verify_digest(&self, digest: crate::standin::sha3::Keccak256, sig: &Signature) -> (r: Result<(), Error>)
                ensures r is Ok <==> lib_verify(self, digest.data@, sig),
            { unimplemented!() }
            #[verifier::external_body]
            pub fn from_sec1_bytes(b: &[u8]) -> (r: Result<Self, Error>)
                ensures
                    r is Ok <==> sec1_valid(b@),
                    r matches Ok(k) ==> k == sec1_key(b@),
            { unimplemented!() }
        }
        pub mod signature {
            pub trait DigestVerifier {}
            pub trait RandomizedDigestSigner {}
        }
    }
    /// field element / coordinate: 32 bytes (`GenericArray<u8, U32>` in the library; it derefs to `[u8]` and is `Copy`)
    pub type FieldBytes = [u8; 32];
    pub mod elliptic_curve {
        pub mod point { pub trait DecompressPoint {} }
        pub mod sec1 {
            /// `sec1::Coordinates`: the four shapes of a SEC1 encoded point (same variants and fields as the library's enum)
            pub enum Coordinates<'a> {
                Identity,
                Compact { x: &'a crate::standin::k256::FieldBytes },
                Compressed { x: &'a crate::standin::k256::FieldBytes, y_is_odd: bool },
                Uncompressed { x: &'a crate::standin::k256::FieldBytes, y: &'a crate::standin::k256::FieldBytes },
            }
            pub trait ToEncodedPoint {}
        }
        pub mod subtle {
            use vstd::prelude::*;
            /// `subtle::Choice`: a 0/1 byte; `Choice::from(b)` keeps b
            pub struct Choice { pub bit: u8 }
            impl From<u8> for Choice {
                #[verifier::external_body]
                fn from(b: u8) -> (r: Choice) { unimplemented!() }
            }
            impl vstd::std_specs::convert::FromSpecImpl<u8> for Choice {
                open spec fn obeys_from_spec() -> bool { true }
                open spec fn from_spec(b: u8) -> Self { Choice { bit: b } }
            }
            /// `subtle::CtOption`
            #[verifier::external_body]
            #[verifier::reject_recursive_types(T)]
            pub struct CtOption<T> { _p: core::marker::PhantomData<T> }
            pub uninterp spec fn ct_val<T>(c: &CtOption<T>) -> Option<T>;
            impl<T> CtOption<T> {
                /// panics on "none": the caller must know the value is there
                #[verifier::external_body]
                pub fn unwrap(self) -> (r: T)
                    requires ct_val(&self) is Some,
                    ensures Some(r) == ct_val(&self),
                { unimplemented!() }
            }
        }
    }
    #[verifier::external_body]
    pub struct AffinePoint { _p: () }
    /// k256: `AffinePoint::decompress(x, y_is_odd)` as a function of its arguments, and the y coordinate of an affine point
    pub uninterp spec fn decompress_spec(x: Seq<u8>, odd: bool) -> Option<AffinePoint>;
    pub uninterp spec fn ap_y(a: &AffinePoint) -> Seq<u8>;
    /// `EncodedPoint::from(&key)`, the coordinates an encoded point holds, its y coordinate if it holds one
    pub uninterp spec fn ep_of(k: &ecdsa::VerifyingKey) -> EncodedPoint;
    pub uninterp spec fn ep_coords<'a>(p: &'a EncodedPoint) -> elliptic_curve::sec1::Coordinates<'a>;
    pub uninterp spec fn ep_y(p: &EncodedPoint) -> Option<Seq<u8>>;
    /// k256 (LIBRARY LAW, assumed): a verifying key is a finite curve point with 32-byte coordinates; decompressing its x with the
    /// parity of its y gives the point back; the SEC1 encoding of the key is the compressed or the uncompressed form of that
    /// point (never the identity or the compact form)
    #[verifier::external_body]
    pub proof fn axiom_vk_point(k: ecdsa::VerifyingKey)
        ensures
            ecdsa::pt_x(&k).len() == 32, ecdsa::pt_y(&k).len() == 32,
            decompress_spec(ecdsa::pt_x(&k), ecdsa::pt_y_odd(&k)) matches Some(a) && ap_y(&a) == ecdsa::pt_y(&k),
            (ep_coords(&ep_of(&k)) matches elliptic_curve::sec1::Coordinates::Compressed { x, y_is_odd }
                && x@ == ecdsa::pt_x(&k) && y_is_odd == ecdsa::pt_y_odd(&k))
            || (ep_coords(&ep_of(&k)) matches elliptic_curve::sec1::Coordinates::Uncompressed { x, y }
                && x@ == ecdsa::pt_x(&k) && y@ == ecdsa::pt_y(&k)),
    {}
    impl AffinePoint {
        #[verifier::external_body]
        pub fn decompress(x: &FieldBytes, c: elliptic_curve::subtle::Choice) -> (r: elliptic_curve::subtle::CtOption<AffinePoint>)
            ensures elliptic_curve::subtle::ct_val(&r) == decompress_spec(x@, c.bit == 1),
        { unimplemented!() }
        /// only the uncompressed form is specified: it holds the point's y coordinate
        #[verifier::external_body]
        pub fn to_encoded_point(&self, compress: bool) -> (r: EncodedPoint)
            ensures !compress ==> ep_y(&r) == Some(ap_y(self)),
        { unimplemented!() }
    }
    /// 33-byte compressed SEC1 point
    #[verifier::external_body]
    pub struct CompressedPoint { _p: () }
    impl AsRef<[u8]> for CompressedPoint {
        #[verifier::external_body]
        fn as_ref(&self) -> &[u8] { unimplemented!() }
    }
    pub uninterp spec fn cp_ref(c: &CompressedPoint) -> &[u8];
    impl AsRefSpecImpl<[u8]> for CompressedPoint {
        open spec fn aref(&self) -> &[u8] { cp_ref(self) }
    }
    impl From<&ecdsa::VerifyingKey> for CompressedPoint {
        #[verifier::external_body]
        fn from(k: &ecdsa::VerifyingKey) -> (r: CompressedPoint)
        { unimplemented!() }
    }
    /// the compressed SEC1 point of a verifying key (`CompressedPoint::from(&key)`)
    pub uninterp spec fn cp_of(k: &ecdsa::VerifyingKey) -> CompressedPoint;
    impl vstd::std_specs::convert::FromSpecImpl<&ecdsa::VerifyingKey> for CompressedPoint {
        open spec fn obeys_from_spec() -> bool { true }
        open spec fn from_spec(k: &ecdsa::VerifyingKey) -> Self { cp_of(k) }
    }
    impl CompressedPoint {
        #[verifier::external_body]
        pub fn to_vec(&self) -> (r: Vec<u8>)
            ensures r@ == cp_ref(self)@,
        { unimplemented!() }
    }
    #[verifier::external_body]
    pub struct EncodedPoint { _p: () }
    impl From<&ecdsa::VerifyingKey> for EncodedPoint {
        #[verifier::external_body]
        fn from(k: &ecdsa::VerifyingKey) -> (r: EncodedPoint) { unimplemented!() }
    }
    impl vstd::std_specs::convert::FromSpecImpl<&ecdsa::VerifyingKey> for EncodedPoint {
        open spec fn obeys_from_spec() -> bool { true }
        open spec fn from_spec(k: &ecdsa::VerifyingKey) -> Self { ep_of(k) }
    }
    impl EncodedPoint {
        #[verifier::external_body]
        pub fn coordinates(&self) -> (r: elliptic_curve::sec1::Coordinates<'_>)
            ensures r == ep_coords(self),
        { unimplemented!() }
        #[verifier::external_body]
        pub fn y(&self) -> (r: Option<&FieldBytes>)
            ensures r is Some <==> ep_y(self) is Some, r matches Some(v) ==> ep_y(self) == Some(v@),
        { unimplemented!() }
    }
}

pub mod ed25519_dalek {
    use super::super::sp::*;
    use vstd::prelude::*;
    pub const PUBLIC_KEY_LENGTH: usize = 32;
    pub const SECRET_KEY_LENGTH: usize = 32;
    pub const SIGNATURE_LENGTH: usize = 64;
    pub const KEYPAIR_LENGTH: usize = 64;
    #[verifier::external_body]
    pub struct SigningKey { _p: () }
    #[verifier::external_body]
    #[derive(Clone, Copy, Debug, PartialEq, Eq)]
    pub struct VerifyingKey { _p: () }
    #[verifier::external_body]
    pub struct Signature { _p: () }
    pub struct SignatureError { pub _p: () }
    pub trait Signer {}
    pub trait Verifier {}
    /// ed25519-dalek: `Signature::try_from(bytes)` accepts exactly 64 bytes
    pub uninterp spec fn sig_parse(b: Seq<u8>) -> Option<Signature>;
    pub uninterp spec fn lib_verify(vk: &VerifyingKey, msg: Seq<u8>, sig: &Signature) -> bool;
    impl Signature {
        #[verifier::external_body]
        pub fn try_from(b: &[u8]) -> (r: Result<Self, SignatureError>)
            ensures
                r is Ok <==> sig_parse(b@) is Some,
                r matches Ok(s) ==> sig_parse(b@) == Some(s),
        { unimplemented!() }
        #[verifier::external_body]
        pub fn from_bytes(b: &[u8; 64]) -> (r: Signature)
            ensures sig_parse(b@) == Some(r),
        { unimplemented!() }
        #[verifier::external_body]
        pub fn to_bytes(&self) -> (r: [u8; 64])
            ensures sig_parse(r@) == Some(*self),
        { unimplemented!() }
    }
    /// ed25519-dalek: any 32-byte string is a secret key; other lengths are refused
    pub open spec fn secret_valid(b: Seq<u8>) -> bool { b.len() == 32 }
    pub uninterp spec fn secret_of(k: &SigningKey) -> Seq<u8>;
    pub uninterp spec fn pk_valid(b: Seq<u8>) -> bool;
    pub uninterp spec fn pk_of(b: Seq<u8>) -> VerifyingKey;
    pub uninterp spec fn sk_public(k: &SigningKey) -> VerifyingKey;
    pub uninterp spec fn vk_bytes(k: &VerifyingKey) -> Seq<u8>;
    /// Ed25519 verification of a 64-byte signature over the raw message
    pub open spec fn vk_verify_v4(k: &VerifyingKey, msg: Seq<u8>, sig: Seq<u8>) -> bool {
        sig_parse(sig) matches Some(s) && lib_verify(k, msg, &s)
    }
    /// ed25519-dalek: a public key is 32 bytes and decodes back to the same key
    #[verifier::external_body]
    pub proof fn axiom_vk_roundtrip(k: VerifyingKey)
        ensures vk_bytes(&k).len() == 32, pk_valid(vk_bytes(&k)), pk_of(vk_bytes(&k)) == k,
    {}
    impl SigningKey {
        #[verifier::external_body]
        pub fn verifying_key(&self) -> (r: VerifyingKey)
            ensures r == sk_public(self),
        { unimplemented!() }
        /// stand-in for `Signer::sign`: the signature verifies under the signer's public key (LIBRARY LAW, assumed)
        #[verifier::external_body]
        pub fn sign(&self, msg: &[u8]) -> (r: Signature)
            ensures lib_verify(&sk_public(self), msg@, &r),
        { unimplemented!() }
        /// stand-in for `<SigningKey as TryFrom<&[u8]>>::try_from`
        #[verifier::external_body]
        pub fn try_from(b: &[u8]) -> (r: Result<Self, SignatureError>)
            ensures
                r is Ok <==> secret_valid(b@),
                r matches Ok(k) ==> secret_of(&k) == b@,
        { unimplemented!() }
        #[verifier::external_body]
        pub fn to_bytes(&self) -> (r: [u8; 32])
            ensures r@ == secret_of(self),
        { unimplemented!() }
    }
    impl VerifyingKey {
        /// stand-in for `Verifier::verify`
        #[verifier::external_body]
        pub fn verify(&self, msg: &[u8], sig: &Signature) -> (r: Result<(), SignatureError>)
            ensures r is Ok <==> lib_verify(self, msg@, sig),
        { unimplemented!() }
        #[verifier::external_body]
        pub fn to_bytes(&self) -> (r: [u8; 32])
            ensures r@ == vk_bytes(self),
        { unimplemented!() }
        #[verifier::external_body]
        pub fn try_from(b: &[u8]) -> (r: Result<Self, SignatureError>)
            ensures
                r is Ok <==> pk_valid(b@),
                r matches Ok(k) ==> k == pk_of(b@),
        { unimplemented!() }
    }
}

/// rust-secp256k1 (bindings to libsecp256k1), second secp256k1 back-end.  Everything here is an ASSUMPTION about that
/// library.  The two facts that tie it to the k256 vocabulary (X1, X2) are the CROSS-LIBRARY assumptions C11 rests on:
/// on the standard SEC1 encodings the two libraries accept the same points, and they implement the same ECDSA predicate.
pub mod secp256k1 {
    use super::super::sp::*;
    use vstd::prelude::*;
    use super::k256::ecdsa::{sec1_standard, sec1_valid, sec1_key, vk_compressed, vk_xy, vk_verify_v4};
    pub mod constants {
        pub const PUBLIC_KEY_SIZE: usize = 33;
        pub const UNCOMPRESSED_PUBLIC_KEY_SIZE: usize = 65;
    }
    #[verifier::external_body]
    pub struct SecretKey { _p: () }
    #[verifier::external_body]
    #[derive(Clone, Copy, Debug, PartialEq, Eq)]
    pub struct PublicKey { _p: () }
    pub struct Error { pub _p: () }
    #[verifier::external_body]
    pub struct Message { _p: () }
    /// the global verification/signing context
    #[derive(Clone, Copy)]
    pub struct Secp256k1 { pub _p: () }
    pub const SECP256K1: Secp256k1 = Secp256k1 { _p: () };

    /// 33-byte compressed / 65-byte uncompressed serialisation of a public key
    pub uninterp spec fn pk_comp(p: &PublicKey) -> Seq<u8>;
    pub uninterp spec fn pk_unc(p: &PublicKey) -> Seq<u8>;
    /// what `PublicKey::from_slice` accepts (compressed, uncompressed AND hybrid encodings of valid points) and yields
    pub uninterp spec fn lib_accepts(b: Seq<u8>) -> bool;
    pub uninterp spec fn key_of(b: Seq<u8>) -> PublicKey;
    pub uninterp spec fn sk_public(k: &SecretKey) -> PublicKey;
    pub uninterp spec fn msg_digest(m: &Message) -> Seq<u8>;
    /// libsecp256k1: ECDSA verification of a (normalised, low-S) compact signature over a 32-byte digest
    pub uninterp spec fn lib_verify(p: &PublicKey, digest: Seq<u8>, sig: &ecdsa::Signature) -> bool;

    /// a key serialises to a standard compressed encoding that parses back to the same key
    #[verifier::external_body]
    pub proof fn axiom_pk_roundtrip(p: PublicKey)
        ensures pk_comp(&p).len() == 33, pk_comp(&p)[0] == 2 || pk_comp(&p)[0] == 3, lib_accepts(pk_comp(&p)), key_of(pk_comp(&p)) == p,
    {}
    /// X1 (cross-library): on a STANDARD SEC1 encoding both libraries accept the same byte strings, and the keys they yield
    /// have the same compressed form
    #[verifier::external_body]
    pub proof fn axiom_x1_same_points(b: Seq<u8>)
        requires sec1_standard(b),
        ensures
            lib_accepts(b) == sec1_valid(b),
            sec1_valid(b) ==> pk_comp(&key_of(b)) == vk_compressed(&sec1_key(b)),
    {}
    /// X1' (cross-library): the x||y form libsecp256k1 serialises is the one k256 computes for the same point
    #[verifier::external_body]
    pub proof fn axiom_x1_same_xy(p: PublicKey)
        ensures pk_unc(&p).len() == 65, pk_unc(&p).subrange(1, 65) == vk_xy(&sec1_key(pk_comp(&p))),
    {}
    /// X2 (cross-library): "the 64 bytes parse as a compact signature and libsecp256k1 verifies it over keccak256(msg)" is the
    /// predicate k256 implements (r, s in range, low-S, ECDSA over keccak256(msg)) for the same point
    #[verifier::external_body]
    pub proof fn axiom_x2_same_ecdsa(p: PublicKey, msg: Seq<u8>, sig: Seq<u8>)
        ensures (ecdsa::sigc_ok(sig) && lib_verify(&p, crate::standin::sha3::keccak(msg), &ecdsa::sigc_of(sig)))
            == vk_verify_v4(&sec1_key(pk_comp(&p)), msg, sig),
    {}

    pub mod ecdsa {
        use vstd::prelude::*;
        #[verifier::external_body]
        pub struct Signature { _p: () }
        /// `Signature::from_compact` accepts exactly 64 bytes whose r and s do not overflow the group order
        pub uninterp spec fn sigc_ok(b: Seq<u8>) -> bool;
        pub uninterp spec fn sigc_of(b: Seq<u8>) -> Signature;
        pub uninterp spec fn sigc_bytes(s: &Signature) -> Seq<u8>;
        pub uninterp spec fn sig_normalized(s: &Signature) -> Signature;
        impl Signature {
            #[verifier::external_body]
            pub fn from_compact(b: &[u8]) -> (r: Result<Self, super::Error>)
                ensures r is Ok <==> sigc_ok(b@), r matches Ok(s) ==> s == sigc_of(b@),
            { unimplemented!() }
            /// libsecp256k1: replaces a high-S signature by its low-S twin (no relation to `lib_verify` is assumed)
            #[verifier::external_body]
            pub fn normalize_s(&mut self)
                ensures *final(self) == sig_normalized(old(self)),
            { unimplemented!() }
            #[verifier::external_body]
            pub fn serialize_compact(&self) -> (r: [u8; 64])
                ensures r@ == sigc_bytes(self), sigc_ok(r@), sigc_of(r@) == *self,
            { unimplemented!() }
        }
    }
    impl Message {
        #[verifier::external_body]
        pub fn from_digest(d: [u8; 32]) -> (r: Message)
            ensures msg_digest(&r) == d@,
        { unimplemented!() }
    }
    impl Secp256k1 {
        /// libsecp256k1 signing: the result verifies under the signer's public key (LIBRARY LAW, assumed)
        #[verifier::external_body]
        pub fn sign_ecdsa_with_noncedata(&self, msg: &Message, sk: &SecretKey, noncedata: &[u8; 32]) -> (r: ecdsa::Signature)
            ensures lib_verify(&sk_public(sk), msg_digest(msg), &r),
        { unimplemented!() }
        #[verifier::external_body]
        pub fn verify_ecdsa(&self, msg: &Message, sig: &ecdsa::Signature, pk: &PublicKey) -> (r: Result<(), Error>)
            ensures r is Ok <==> lib_verify(pk, msg_digest(msg), sig),
        { unimplemented!() }
    }
    impl PublicKey {
        #[verifier::external_body]
        pub fn from_secret_key(secp: Secp256k1, sk: &SecretKey) -> (r: PublicKey)
            ensures r == sk_public(sk),
        { unimplemented!() }
        #[verifier::external_body]
        pub fn from_slice(b: &[u8]) -> (r: Result<PublicKey, Error>)
            ensures r is Ok <==> lib_accepts(b@), r matches Ok(p) ==> p == key_of(b@),
        { unimplemented!() }
        #[verifier::external_body]
        pub fn serialize(&self) -> (r: [u8; 33])
            ensures r@ == pk_comp(self),
        { unimplemented!() }
        #[verifier::external_body]
        pub fn serialize_uncompressed(&self) -> (r: [u8; 65])
            ensures r@ == pk_unc(self),
        { unimplemented!() }
    }
}

pub mod base64 {
    use super::super::sp::*;
    use vstd::prelude::*;
    pub struct DecodeError { pub _p: () }
    impl core::fmt::Display for DecodeError {
        #[verifier::external_body]
        fn fmt(&self, f: &mut core::fmt::Formatter<'_>) -> core::fmt::Result { unimplemented!() }
    }
    impl core::fmt::Debug for DecodeError {
        #[verifier::external_body]
        fn fmt(&self, f: &mut core::fmt::Formatter<'_>) -> core::fmt::Result { unimplemented!() }
    }
    /// text produced by engine `e` for bytes `b` (the engines are distinguished by their ghost id)
    pub uninterp spec fn b64_text(e: int, b: Seq<u8>) -> Seq<u8>;
    /// base64: distinct byte strings have distinct texts
    #[verifier::external_body]
    pub proof fn axiom_b64_injective(e: int, a: Seq<u8>, b: Seq<u8>)
        ensures b64_text(e, a) == b64_text(e, b) ==> a == b,
    {}
    /// base64 (URL-safe engines 2 and 3): the text uses only [A-Za-z0-9_-]; in particular never ':'
    #[verifier::external_body]
    pub proof fn axiom_b64_urlsafe_alphabet(e: int, b: Seq<u8>, i: int)
        requires e == 2 || e == 3, 0 <= i < b64_text(e, b).len(),
        ensures ({ let c = b64_text(e, b)[i];
            (0x41 <= c <= 0x5a) || (0x61 <= c <= 0x7a) || (0x30 <= c <= 0x39) || c == 0x2d || c == 0x5f }),
    {}
    /// base64: the text is at least as long as the input
    #[verifier::external_body]
    pub proof fn axiom_b64_len(e: int, b: Seq<u8>)
        ensures b64_text(e, b).len() >= b.len(),
    {}
    pub trait Engine {
        spec fn engine_id(&self) -> int;
        fn encode<T: AsRef<[u8]>>(&self, input: T) -> (r: String)
            ensures utf8(r@) == b64_text(self.engine_id(), input.aref()@);
        /// `encode_string` appends the same text to an existing String
        fn encode_string<T: AsRef<[u8]>>(&self, input: T, output_buf: &mut String)
            ensures utf8(final(output_buf)@) == utf8(old(output_buf)@) + b64_text(self.engine_id(), input.aref()@);
        /// strict: accepts exactly the canonical text of some byte string (no padding for
        /// NO_PAD engines, no trailing bits, alphabet of this engine only) -- behaviour of `base64`
        fn decode<T: AsRef<[u8]>>(&self, input: T) -> (r: Result<Vec<u8>, DecodeError>)
            ensures
                r matches Ok(v) ==> input.aref()@ == b64_text(self.engine_id(), v@),
                r is Err ==> forall|b: Seq<u8>| input.aref()@ != #[trigger] b64_text(self.engine_id(), b);
    }
    pub mod engine {
        pub use super::Engine;
        pub mod general_purpose {
            use vstd::prelude::*;
            use super::super::super::super::sp::*;
            pub struct GeneralPurpose { pub id: u8 }
            impl super::super::Engine for GeneralPurpose {
                open spec fn engine_id(&self) -> int { self.id as int }
                #[verifier::external_body]
                fn encode<T: AsRef<[u8]>>(&self, input: T) -> (r: String) { unimplemented!() }
                #[verifier::external_body]
                fn encode_string<T: AsRef<[u8]>>(&self, input: T, output_buf: &mut String) { unimplemented!() }
                #[verifier::external_body]
                fn decode<T: AsRef<[u8]>>(&self, input: T) -> (r: Result<Vec<u8>, super::super::DecodeError>) { unimplemented!() }
            }
            pub const STANDARD: GeneralPurpose = GeneralPurpose { id: 0 };
            pub const STANDARD_NO_PAD: GeneralPurpose = GeneralPurpose { id: 1 };
            pub const URL_SAFE: GeneralPurpose = GeneralPurpose { id: 2 };
            pub const URL_SAFE_NO_PAD: GeneralPurpose = GeneralPurpose { id: 3 };
        }
    }
}

pub mod hex {
    use super::super::sp::*;
    use vstd::prelude::*;
    pub trait ToHex {}
    /// error of `FromHex for [u8; N]`
    pub struct FromHexError { pub _p: () }
    impl core::fmt::Display for FromHexError {
        #[verifier::external_body]
        fn fmt(&self, f: &mut core::fmt::Formatter<'_>) -> core::fmt::Result { unimplemented!() }
    }
    pub open spec fn is_hex_byte(c: u8) -> bool { (0x30 <= c <= 0x39) || (0x61 <= c <= 0x66) || (0x41 <= c <= 0x46) }
    pub open spec fn hex_nibble(c: u8) -> int { if c <= 0x39 { c - 0x30 } else if c >= 0x61 { c - 0x61 + 10 } else { c - 0x41 + 10 } }
    /// the bytes a text of hex digits (either case) denotes
    pub open spec fn hex_decode(s: Seq<u8>) -> Seq<u8> {
        Seq::new(s.len() / 2, |i: int| (hex_nibble(s[2 * i]) * 16 + hex_nibble(s[2 * i + 1])) as u8)
    }
    pub open spec fn hex_text_ok(s: Seq<u8>, n: nat) -> bool { s.len() == 2 * n && forall|i: int| 0 <= i < s.len() ==> is_hex_byte(#[trigger] s[i]) }
    /// `hex::FromHex`: ghost `spec_from_hex` = the value a text denotes, if the type accepts it
    pub trait FromHex: Sized {
        type Error;
        spec fn spec_from_hex(s: Seq<u8>) -> Option<Self>;
        fn from_hex<T: AsRef<[u8]>>(hex: T) -> (r: Result<Self, Self::Error>)
            ensures match Self::spec_from_hex(hex.aref()@) { Some(v) => r == Ok::<Self, Self::Error>(v), None => r is Err };
    }
    /// the 32-byte array with the given contents
    pub uninterp spec fn arr32_of(b: Seq<u8>) -> [u8; 32];
    #[verifier::external_body]
    pub broadcast proof fn axiom_arr32_of(b: Seq<u8>)
        ensures b.len() == 32 ==> (#[trigger] arr32_of(b))@ == b,
    {}
    /// `impl FromHex for [u8; 32]`: exactly 64 hex digits of either case, decoded pairwise
    impl FromHex for [u8; 32] {
        type Error = FromHexError;
        open spec fn spec_from_hex(s: Seq<u8>) -> Option<[u8; 32]> {
            if hex_text_ok(s, 32) { Some(arr32_of(hex_decode(s))) } else { None }
        }
        #[verifier::external_body]
        fn from_hex<T: AsRef<[u8]>>(hex: T) -> (r: Result<Self, Self::Error>) { unimplemented!() }
    }
    /// lower-case hex digit of a nibble
    pub open spec fn hex_digit(n: int) -> char { if n < 10 { ((0x30 + n) as u8) as char } else { ((0x61 + n - 10) as u8) as char } }
    /// `hex::encode`: two lower-case hex digits per byte
    pub open spec fn hex_chars(b: Seq<u8>) -> Seq<char> {
        Seq::new(2 * b.len(), |i: int| hex_digit(if i % 2 == 0 { (b[i / 2] / 16) as int } else { (b[i / 2] % 16) as int }))
    }
    #[verifier::external_body]
    pub fn encode<T: AsRef<[u8]>>(data: T) -> (r: String)
        ensures r@ == hex_chars(data.aref()@), is_ascii_chars(r@), r@.len() == 2 * data.aref()@.len(),
    { unimplemented!() }
}

pub mod sha3 {
    use super::super::sp::*;
    use vstd::prelude::*;
    /// keccak256 as a total function on byte strings
    pub uninterp spec fn keccak(b: Seq<u8>) -> Seq<u8>;
    /// hasher state: `data` = everything fed so far
    pub struct Keccak256 { pub data: Vec<u8> }
    pub struct Output { pub v: Vec<u8> }
    pub trait Digest: Sized {
        fn digest(b: &[u8]) -> (r: Output)
            ensures r.v@ == keccak(b@), r.v@.len() == 32;
        fn new() -> (r: Self);
        fn chain_update(self, data: &[u8]) -> (r: Self);
    }
    impl Digest for Keccak256 {
        #[verifier::external_body]
        fn digest(b: &[u8]) -> (r: Output) { unimplemented!() }
        #[verifier::external_body]
        fn new() -> (r: Self)
            ensures r.data@ == Seq::<u8>::empty(),
        { unimplemented!() }
        #[verifier::external_body]
        fn chain_update(self, data: &[u8]) -> (r: Self)
            ensures r.data@ == self.data@ + data@,
        { unimplemented!() }
    }
    impl core::ops::Deref for Output {
        type Target = [u8];
        #[verifier::external_body]
        fn deref(&self) -> (r: &[u8])
            ensures r@ == self.v@
        { unimplemented!() }
    }
}

pub mod zeroize {
    use vstd::prelude::*;
    pub trait Zeroize {
        fn zeroize(&mut self);
    }
    pub open spec fn zeros(n: nat) -> Seq<u8> { Seq::new(n, |i: int| 0u8) }
    impl Zeroize for [u8] {
        #[verifier::external_body]
        fn zeroize(&mut self)
            ensures final(self)@ == zeros(old(self)@.len())
        { unimplemented!() }
    }
}

pub mod rand {
    use vstd::prelude::*;
    pub trait RngCore {
        fn fill_bytes(&mut self, dest: &mut [u8])
            ensures final(dest)@.len() == old(dest)@.len();
    }
    pub mod rngs {
        use vstd::prelude::*;
        pub struct OsRng;
        impl super::RngCore for OsRng {
            #[verifier::external_body]
            fn fill_bytes(&mut self, dest: &mut [u8]) { unimplemented!() }
        }
    }
}

/// serde, reduced to what the crate's own `Serialize`/`Deserialize` impls touch: a serializer that is handed ONE string, and
/// a deserializer that either holds one string or does not.  (Every JSON document of an `Enr` is one string token.)
pub mod serde {
    use super::super::sp::*;
    use vstd::prelude::*;
    pub trait Serializer: Sized {
        type Ok;
        type Error;
        /// `r` is what this serializer answers when it is handed the string `s`
        spec fn ser_str(self, s: Seq<char>, r: Result<Self::Ok, Self::Error>) -> bool;
        fn serialize_str(self, v: &str) -> (r: Result<Self::Ok, Self::Error>)
            ensures self.ser_str(v@, r);
    }
    pub trait Serialize {
        fn serialize<S: Serializer>(&self, serializer: S) -> Result<S::Ok, S::Error>;
    }
    pub mod de {
        use vstd::prelude::*;
        pub trait Error: Sized {
            fn custom<T: core::fmt::Display>(msg: T) -> Self;
        }
    }
    pub trait Deserializer<'de>: Sized {
        type Error: de::Error;
        /// the string this deserializer holds, if what it holds is a string
        spec fn de_string(self) -> Option<Seq<char>>;
    }
    pub trait Deserialize<'de>: Sized {
        fn deserialize<D: Deserializer<'de>>(deserializer: D) -> Result<Self, D::Error>;
    }
    /// `&str: Deserialize`: a BORROWED string; succeeds only for deserializers that can lend their input (serde_json's
    /// `from_str`/`from_slice` can, `from_value`/`from_reader` cannot), so success is not guaranteed even when a string is held
    impl<'de> Deserialize<'de> for &'de str {
        #[verifier::external_body]
        fn deserialize<D: Deserializer<'de>>(deserializer: D) -> (r: Result<Self, D::Error>)
            ensures r matches Ok(x) ==> deserializer.de_string() == Some(x@),
        { unimplemented!() }
    }
    /// `String: Deserialize`: yields exactly the string the deserializer holds, an error if it holds something else
    pub uninterp spec fn de_err<E>() -> E;
    impl<'de> Deserialize<'de> for String {
        #[verifier::external_body]
        fn deserialize<D: Deserializer<'de>>(deserializer: D) -> (r: Result<Self, D::Error>)
            ensures match deserializer.de_string() { Some(s) => r matches Ok(x) && x@ == s, None => r is Err },
        { unimplemented!() }
    }
}
