// ===================================================================================
// TRUSTED AXIOMS about compiler-generated code of the repository: `#[derive(PartialEq)]`
// on `NodeId` is structural equality of its single field.  ASSUMPTION (T10).
// ===================================================================================
use vstd::prelude::*;
use vstd::std_specs::cmp::*;
use crate::code::node_id::NodeId;
#[verifier::external_body]
pub broadcast proof fn axiom_nodeid_derived_eq(a: &NodeId, b: &NodeId)
    ensures #[trigger] PartialEqSpec::eq_spec(a, b) == (a.raw@ == b.raw@),
{}
#[verifier::external_body]
pub broadcast proof fn axiom_nodeid_derived_eq_obeys()
    ensures #[trigger] <NodeId as PartialEqSpec<NodeId>>::obeys_eq_spec(),
{}
pub broadcast group group_trusted_code { axiom_nodeid_derived_eq, axiom_nodeid_derived_eq_obeys }
