// ===================================================================================
// TRUSTED AXIOMS about compiler-generated code of the repository: `#[derive(PartialEq)]`
// on `NodeId` is structural equality of its single field.  ASSUMPTION (T10).
// ===================================================================================
use vstd::prelude::*;
use vstd::std_specs::cmp::*;
use crate::code::node_id::NodeId;
use crate::sp::*;
#[verifier::external_body]
pub broadcast proof fn axiom_nodeid_derived_eq(a: &NodeId, b: &NodeId)
    ensures #[trigger] PartialEqSpec::eq_spec(a, b) == (a.raw@ == b.raw@),
{}
#[verifier::external_body]
pub broadcast proof fn axiom_nodeid_derived_eq_obeys()
    ensures #[trigger] <NodeId as PartialEqSpec<NodeId>>::obeys_eq_spec(),
{}
/// T11: the `?` operator converts the error with `From::from` (vstd leaves the relation `spec_from` uninterpreted
/// except for the identity conversion); `From<alloy_rlp::Error> for Error` itself is verified code (src/error.rs)
#[verifier::external_body]
pub broadcast proof fn axiom_question_mark_error(e: alloy_rlp::Error, e2: crate::code::error::Error)
    ensures #[trigger] vstd::std_specs::control_flow::spec_from(e, e2) ==> e2 == crate::code::error::Error::InvalidRlpData(e),
{}
/// T10': `#[derive(Hash)]` on `NodeId` feeds a function of its 32 raw bytes
#[verifier::external_body]
pub proof fn axiom_hash_tok_nodeid(a: &NodeId, b: &NodeId)
    ensures a.raw@ == b.raw@ ==> crate::sp::hash_tok(a) == crate::sp::hash_tok(b),
{}
pub broadcast group group_trusted_code { axiom_nodeid_derived_eq, axiom_nodeid_derived_eq_obeys, axiom_question_mark_error }
